"""C13 — models generated from sample documents accept those documents.

Deciding artefacts
  * theorems of coq/Properties/C13.v over Model/Sample.v (faithful model of ElementMapper, DictMapper,
    RawDocumentMapper and ClassUtils.reduce_classes): every part of every sample node has a slot in the
    merged class (capacity >= occurrences, parts missing somewhere are optional), with machine-checked
    refutations for the clauses of `regular` that the faithful model needs;
  * per generated program (translation validation): the samples' own child words against the binding
    metadata of the REALLY generated classes (codegen_run + XmlContext) through Spec/Cm.v's slot
    assignment, evaluated in Coq for each sample node (`validate` / `jvalidate`).
Tie: Gen/SampleTables.v regenerated from the source + differential correspondence of Model/Sample.v
against the real ElementMapper.map / DictMapper.map (per sample) and ClassUtils.reduce_classes.
Search: every sample is parsed into the generated root class with the strictest ParserConfig, warnings
recorded, serialized again and compared (XML: infoset modulo prefixes / insignificant whitespace,
Spec/Infoset.v; JSON: modulo key order / explicit nulls) — verdicts computed in Coq.
Hidden models: genmodels descriptions of a *regular* model (globally consistent element names) rendered
to XML by the real XmlSerializer / to JSON by the real JsonSerializer, then discarded.
"""
import concurrent.futures as cf
import json
import os
import re
import time

from lxml import etree

import cm_export as X
import common
import genmodels as GM
from common import Check, run_impl, standard_proof_step, TRUSTED_COMMON, CORR, BuildError
from coqterm import cstr, cbool, copt, clist, cZ, cfloat_hex, cnat

HEADER = """From Coq Require Import NArith ZArith List Bool PrimFloat.
From XV Require Import Base.Str Base.Eqb Model.Sample Model.SampleCorr Spec.Cm Spec.Infoset.
Import ListNotations.
Open Scope N_scope.
Definition b2n (b : bool) : nat := if b then 1%nat else 0%nat.
Definition bs (l : list bool) : list nat := map b2n l.
"""
MAXSIZE = 9223372036854775807

NS = ["urn:a", "urn:b", "http://example.com/c"]
PRIMS = ["str", "int", "bool", "float", "Decimal", "XmlDate", "XmlTime", "XmlDateTime", "XmlDuration", "XmlPeriod"]
NAME_BASES = ["item", "name", "val", "x-y", "a.b", "Entry", "node", "k", "class", "type", "id", "ref", "Data_set", "value"]


# ------------------------------------------------------------------ hidden regular models
def gen_hidden(r, kind, nil_rate=0.08, prims=None, wide=False):
    """A hidden *regular* model in genmodels' description format: every element name is used for one type
    only (names are globally unique), simple-content classes hold Text + attributes, complex ones elements +
    attributes, mixed ones a mixed wildcard whose children are leaves."""
    xml = kind == "xml"
    PRIMS = list(prims or globals()["PRIMS"])
    n = r.choice([1, 2, 2, 3, 3, 4, 5])
    module_ns = r.choice([None, None, None] + NS) if xml else None
    used = set()

    def fresh():
        while True:
            nm = r.choice(NAME_BASES) + r.choice(["", "", str(r.randint(0, 9)), str(r.randint(10, 99))])
            if nm.lower() not in used and nm != "value":
                used.add(nm.lower())
                return nm

    classes = []
    for i in range(n):
        c = {"name": f"C{i}", "fields": [], "meta": {}, "base": None}
        if xml and r.random() < 0.4:
            c["meta"]["namespace"] = r.choice(NS + [""])
        classes.append(c)
    classes[0]["meta"]["name"] = fresh()
    for i, c in enumerate(classes):
        later = [x["name"] for x in classes[i + 1:]]
        shape = r.random()
        c["simple"] = shape < 0.2 and i > 0
        c["mixed"] = xml and 0.2 <= shape < 0.3 and i > 0
        fields = c["fields"]
        j = 0
        if c["simple"]:
            fields.append({"name": "f0", "kind": "Text", "type": ("prim", r.choice(PRIMS)), "optional": False})
            j = 1
        elif c["mixed"]:
            names = [fresh() for _ in range(r.randint(1, 3))]
            fields.append({"name": "f0", "kind": "Wildcard", "mixed": True, "list": True, "namespace": "##any",
                           "mixed_names": [(nm, r.choice(["str", "int", "bool", "XmlDate"])) for nm in names]})
            j = 1
        else:
            # wide: many optional single children, so that occurrences of one element name have different child sets
            # (runs of children unknown to a larger occurrence, before / between / after shared ones)
            for _ in range(r.randint(5, 9) if wide else r.randint(1, 5)):
                tp = ("class", r.choice(later)) if later and r.random() < (0.25 if wide else 0.4) else ("prim", r.choice(PRIMS))
                k = r.random()
                f = {"name": f"f{j}", "kind": "Element", "type": tp, "xml_name": fresh(), "list": k < 0.35,
                     "optional": 0.35 <= k < 0.7}
                if wide:
                    f["list"] = tp[0] == "class" and k < 0.6      # repeated complex children: several occurrences per sample
                    f["optional"] = not f["list"] and k < 0.85
                if xml and r.random() < nil_rate:
                    f["nillable"] = True
                if xml and r.random() < 0.25:
                    f["namespace"] = r.choice(NS + [""])
                fields.append(f)
                j += 1
            for a in range(len(fields) - 1):     # interleaved repetition: adjacent list fields in one sequence group
                if fields[a].get("list") and fields[a + 1].get("list") and r.random() < 0.6:
                    fields[a]["sequence"] = fields[a + 1]["sequence"] = 1
                    if a + 2 < len(fields) and fields[a + 2].get("list") and r.random() < 0.5:
                        fields[a + 2]["sequence"] = 1
                    break
        na = r.choice([0, 0, 1, 1, 2, 3]) if not c["mixed"] else r.choice([0, 1])
        for _ in range(na):
            f = {"name": f"f{j}", "kind": "Attribute" if xml else "Element", "type": ("prim", r.choice(PRIMS)),
                 "xml_name": fresh(), "optional": r.random() < 0.6, "list": False}
            if xml and r.random() < 0.15:
                f["namespace"] = r.choice(NS)
            fields.append(f)
            j += 1
    return {"module_ns": module_ns, "classes": classes, "enums": [], "root": "C0", "slices": ["F1", "F2"]}


def gen_text(r):
    if r.random() < 0.08:
        return ""
    n = r.choice([1, 1, 2, 3, 5, 9])
    return "".join(r.choice("abcXYZ 019_-.:/&<>\"'éß中") for _ in range(n)).strip() or "t"


CANON_DECIMALS = ["0", "1.5", "-3.14159", "100000", "0.000001", "123456789012345678901234567890.5", "-0.25"]


def gen_prim(r, kind, p, tricky, nonempty=False):
    """Values as the hidden model holds them; spelled by the real serializer.  `tricky`: also spellings that are
    not canonical for their type (Decimal('1.50')) or strings that spell other types."""
    if p == "str":
        s = gen_text(r)
        if tricky and r.random() < 0.15:
            s = r.choice(["123", "true", "1.50", "2001-01-01", "+1", "007", "1e3", "P1D"])
        elif kind == "json" and r.random() < 0.12:
            # JSON strings that spell other JSON / XSD types must stay strings (fix 9a0cfef)
            s = r.choice(["true", "false", "1", "0", "1.5", "2020-01-01", "INF", "null", "-7", "1e3", "NaN"])
        if nonempty and s == "":
            s = "t"
        return {"__p__": "str", "v": s}
    if p == "Decimal":
        v = r.choice(CANON_DECIMALS + [str(r.randint(-999, 999)) + "." + str(r.randint(1, 9))])
        if tricky and r.random() < 0.3:
            v = r.choice(["1.50", "1E+5", "0.10"])
        return {"__p__": "Decimal", "v": v}
    v = GM.gen_prim(r, None, ("prim", p))
    if kind == "json" and p == "float" and v["v"] in ("inf", "-inf", "nan"):
        v["v"] = "2.5"
    return v


def lexical(v):
    x = v["v"]
    if v["__p__"] == "bool":
        return "true" if x else "false"
    return str(x)


def gen_inst(r, m, cname, kind, sparse, tricky, depth=0):
    c = GM.find_class(m, cname)
    rec = {"__cls__": cname, "fields": {f["name"]: gen_val(r, m, f, kind, sparse, tricky, depth) for f in c["fields"]}}
    if m.get("wide"):
        # presence in runs: consecutive optional children are kept or dropped together, differently per occurrence
        present = r.random() < 0.5
        for f in c["fields"]:
            if r.random() < 0.35:
                present = not present
            if f["kind"] == "Element" and f.get("optional") and not f.get("list"):
                if not present:
                    rec["fields"][f["name"]] = None
                elif rec["fields"][f["name"]] is None and not f.get("nillable"):
                    rec["fields"][f["name"]] = gen_val(r, m, dict(f, optional=False), kind, sparse, tricky, depth)
    return rec


def gen_val(r, m, f, kind, sparse, tricky, depth):
    if f["kind"] == "Wildcard":
        out = []
        if r.random() < 0.6:
            out.append({"__p__": "str", "v": r.choice(["txt", "more text", "x & y"])})
        for _ in range(r.choice([0, 1, 2, 3])):
            nm, p = r.choice(f["mixed_names"])
            v = gen_prim(r, kind, p, False, nonempty=True)
            out.append({"__any__": {"qname": nm, "text": lexical(v), "tail": r.choice([None, "tl", " and "]),
                                    "attributes": {}, "children": []}})
        return out
    tp = f["type"]

    def one():
        if tp[0] == "class":
            return gen_inst(r, m, tp[1], kind, sparse, tricky, depth + 1)
        return gen_prim(r, kind, tp[1], tricky, nonempty=(f["kind"] == "Text"))

    if f.get("list"):
        return [one() for _ in range(r.choice([0, 0, 1, 2] if sparse else [0, 1, 2, 3]))]
    if f.get("optional") and r.random() < (0.6 if sparse else 0.3):
        return None
    if f.get("nillable") and r.random() < 0.3:
        return None
    return one()


def gen_set(r, kind, idx):
    nil_rate = 0.0 if idx % 2 == 0 else 0.08
    tricky = idx % 5 == 4
    # the JsonSerializer writes Decimals as JSON strings (finding F6): half of the JSON sets do without them
    prims = [p for p in PRIMS if p != "Decimal"] if (kind == "json" and idx % 6 == 2) else None
    wide = idx % 4 == 1
    m = gen_hidden(r, kind, nil_rate, prims, wide)
    m["wide"] = wide
    k = r.choice([1, 2, 3, 4])
    insts = [gen_inst(r, m, "C0", kind, sparse=(j % 2 == 1), tricky=tricky) for j in range(k)]
    ser = {"indent": None, "ns_map": None, "as_list": False}
    mixed = any(c.get("mixed") for c in m["classes"])
    if kind == "xml":
        if not mixed and r.random() < 0.3:
            ser["indent"] = "  "
        if r.random() < 0.3:
            ser["ns_map"] = [[p, u] for p, u in zip(r.sample(["a", "p", "q", None], 3), r.sample(NS, 3))][:r.randint(1, 3)]
    else:
        ser["as_list"] = k > 1 and r.random() < 0.2
        if r.random() < 0.3:
            ser["indent"] = "  "
    root_name = m["classes"][0]["meta"]["name"]
    pkg = "gen." + (re.sub(r"\W", "_", root_name) if kind == "json" else "doc")
    return {"kind": kind, "src": GM.render_source(m), "instances": insts, "ser": ser, "package": pkg,
            "features": {"classes": len(m["classes"]), "samples": k, "mixed": mixed, "nil": nil_rate > 0, "tricky": tricky, "wide": wide,
                         "ns": bool(m["module_ns"]) or any("namespace" in c["meta"] for c in m["classes"])}}


# literal sample sets: the witnesses of the refutation lemmas / known findings, and small regular sets
XSI = 'xmlns:xsi="http://www.w3.org/2001/XMLSchema-instance"'
WITNESSES = [
    {"id": "w-regular-1", "kind": "xml", "samples": [
        '<r xmlns="urn:a" xmlns:b="urn:b" id="7" b:k="true"><a>1</a><b:c>x</b:c><a>2</a><b:c>y</b:c><d><e>1.5</e></d><m>text <i>it</i> tail</m></r>',
        '<r xmlns="urn:a" id="8"><a>3</a><d><e>2.5</e><f>2001-01-01</f></d></r>']},
    {"id": "w-regular-json", "kind": "json", "package": "gen.doc", "samples": [
        '{"name": "x", "items": [{"id": 1}, {"id": 2, "cls": "k"}], "tags": ["a", "b"], "n": null, "f": 1.5, "b": true, "d": "2001-01-01"}']},
    # one element name, differing child sets: a run of two children unknown to the larger occurrence before a shared one
    {"id": "w-merge-order-within", "kind": "xml", "samples": [
        '<x><r><a>1</a><d>1</d><e>1</e><f>1</f><g>1</g></r><r><a>2</a><b>2</b><c>2</c><d>2</d></r></x>']},
    {"id": "w-merge-order-across", "kind": "xml", "samples": [
        '<r><a>1</a><d>1</d><e>1</e><f>1</f><g>1</g></r>', '<r><a>2</a><b>2</b><c>2</c><d>2</d><h>3</h><i>4</i><g>2</g></r>',
        '<r><p>0</p><q>0</q><a>3</a><g>5</g></r>']},
    {"id": "w-merge-order-json", "kind": "json", "package": "gen.doc", "samples": [
        '{"a": 1, "d": 1, "e": 1, "f": 1, "g": 1}', '{"a": 2, "b": 2, "c": 2, "d": 2}']},
    {"id": "w-nil-not-first", "kind": "xml", "samples": [
        f'<r><n a="1" {XSI} xsi:nil="true"/><n a="2">5</n></r>']},
    {"id": "w-empty-complex", "kind": "xml", "samples": ['<r><c/></r>', '<r><c a="1"><d>x</d></c></r>']},
    {"id": "w-nil-leaf", "kind": "xml", "samples": [f'<r><j><n>0</n></j><j><n {XSI} xsi:nil="true"/></j></r>']},
    {"id": "w-nil-materialises", "kind": "xml", "samples": [f'<r><n a="1" {XSI} xsi:nil="true"/><x>1</x></r>', '<r><x>2</x></r>']},
    {"id": "w-inexact", "kind": "xml", "samples": ['<r><v>1.5</v><v>123456789012345678901234567890.5</v></r>']},
    {"id": "w-seq-conflated", "kind": "xml", "samples": ['<r><p><a>1</a><a>2</a><b>x</b></p><p><b>x</b><c>y</c><c>z</c><d>w</d></p></r>']},
    {"id": "w-ns-contexts", "kind": "xml", "samples": ['<r><p xmlns="urn:b"><k xmlns="" a="1"/></p><q><k a="2"><t>2</t></k></q></r>']},
    {"id": "w-json-strings-spelling-types", "kind": "json", "package": "gen.doc", "samples": [
        '{"b": "true", "c": "false", "i": "1", "f": "1.5", "d": "2020-01-01", "x": "INF", "n": "null", '
        '"l": ["true", "1", "x"], "lb": ["false", "true"], "o": {"b": "false", "l": ["1.5", "2"], "p": {"t": "true"}}, '
        '"items": [{"v": "true"}, {"v": "0"}]}',
        '{"b": "false", "c": "true", "i": "2", "f": "2.5", "d": "2021-02-03", "x": "-INF", "n": "null", '
        '"l": [], "lb": ["true"], "o": {"b": "true", "l": [], "p": {"t": "false"}}, "items": []}']},
    {"id": "w-json-string", "kind": "json", "package": "gen.doc", "samples": ['{"s": "123"}']},
]


# ------------------------------------------------------------------ Coq evaluation
def coq_multi(tag, defs, evals, timeout=900):
    os.makedirs(CORR, exist_ok=True)
    path = os.path.join(CORR, f"c13_{tag}.v")
    with open(path, "w") as f:
        f.write(HEADER + defs + "\n" + "\n".join(f"Eval vm_compute in ({e})." for e in evals) + "\n")
    rc, out, err = common._coqc(path, timeout)
    if os.environ.get("C13_KEEP"):
        import shutil
        shutil.copy(path, "/tmp/c13_keep_" + tag + ".v")
        with open("/tmp/c13_keep_" + tag + ".out", "w") as f:
            f.write(out + err)
    for ext in (".v", ".vo", ".vok", ".vos", ".glob"):
        try:
            os.remove(path[:-2] + ext)
        except FileNotFoundError:
            pass
    try:
        os.remove(os.path.join(CORR, f".c13_{tag}.aux"))
    except FileNotFoundError:
        pass
    if rc != 0:
        raise BuildError(os.path.relpath(path, common.COQ), (out + err)[-3000:])
    vals = []
    for chunk in re.split(r"^\s*= ", out, flags=re.M)[1:]:
        m = list(re.finditer(r"\n\s*: ", chunk))
        vals.append(chunk[:m[-1].start()] if m else chunk)
    if len(vals) != len(evals):
        raise BuildError(os.path.relpath(path, common.COQ), f"expected {len(evals)} values, got {len(vals)}: " + out[-800:])
    return [X.coq_list_to_py(v) for v in vals]


# ------------------------------------------------------------------ term printers
def ostr(v):
    return copt(v, cstr)


def tree_term(t):
    if "qname" not in t:
        return "(T (@nil N) [] None None [])"         # not an AnyElement: the model skips it like the code does
    atts = clist([f"({cstr(k)}, {cstr(v)})" for k, v in t["attributes"]], str, "(str * str)")
    kids = clist([tree_term(c) for c in t["children"]], str, "tree")
    return f"(T {cstr(t['qname'])} {atts} {ostr(t['text'])} {ostr(t['tail'])} {kids})"


def json_term(v):
    if v is None:
        return "JNull"
    if isinstance(v, bool):
        return f"(JBool {cbool(v)})"
    if isinstance(v, int):
        return f"(JInt {cZ(v)})"
    if isinstance(v, float):
        return f"(JFloat {cfloat_hex(v)})"
    if isinstance(v, str):
        return f"(JStr {cstr(v)})"
    if isinstance(v, list):
        return f"(JList {clist([json_term(x) for x in v], str, 'json')})"
    return "(JObj " + clist([f"({cstr(k)}, {json_term(x)})" for k, x in v.items()], str, "(str * json)") + ")"


def occ_term(v):
    if v is None:
        return "424242"            # never produced by these mappers: forces a mismatch
    return str(MAXSIZE) if v == "inf" else str(v)


def attr_term(a):
    types = clist([f"(mk_atype {cstr(t['qname'])} {cbool(t['native'])} {cbool(t['forward'])})" for t in a["types"]], str, "atype")
    path = a["path"]
    if not path:
        seq = 0
    elif len(path) == 1 and path[0][0] == "s" and path[0][2] == 1 and path[0][3] == "inf":
        seq = path[0][1]
    else:
        seq = 424242
    return (f"(mk_attr {cstr(a['tag'])} {cstr(a['local_name'])} {ostr(a['namespace'])} {types} {occ_term(a['min'])} "
            f"{occ_term(a['max'])} {seq} {cnat(a['index'])})")


def fclass_term(c):
    return (f"(mk_fclass {cstr(c['qname'])} {ostr(c['namespace'])} {cbool(c['mixed'])} {cbool(c['nillable'])} "
            f"{clist([attr_term(a) for a in c['attrs']], str, 'attr')})")


def classes_term(cs):
    return clist([fclass_term(c) for c in cs], str, "fclass")


def bools(bs):
    return clist([cbool(b) for b in bs], str, "bool")


def gmeta_term(m, index):
    plain, compound, wild = [], [], []
    text = False
    for v in sorted(m["elements"], key=lambda v: v["index"]):
        k = v["kind"]
        dcs = [t for t in v["types"] if t["dc"]]
        if k == "text":
            text = True
            continue
        if not dcs:
            kind, target = 0, 0
        elif len(v["types"]) == 1 and len(v.get("targets") or []) == 1:
            kind, target = 1, v["targets"][0]
        else:
            kind, target = 2, 0
        if any(t["name"] == "object" for t in v["types"]):
            kind = 2
        tail = f"{cstr(v['local_name'])} {cnat(kind)} {cnat(target)} {cbool(v['nillable'])}"
        if k == "element":
            ef = X.efield_term([v["qname"]], False, not v["list"], v["py_required"] and not v["list"], v["index"])
            plain.append(f"(mk_gfield {ef} {tail})")
        elif k == "elements":
            names = [c["qname"] for c in v["choices"] if not c["wild"]]
            ef = X.efield_term(names, any(c["wild"] for c in v["choices"]), not v["list"], v["py_required"] and not v["list"], v["index"])
            compound.append(f"(mk_gfield {ef} {cstr(v['local_name'])} {cnat(2)} {cnat(0)} {cbool(v['nillable'])})")
        elif k == "wildcard":
            ef = X.efield_term([], True, False, False, v["index"])
            wild.append(f"(mk_gfield {ef} {tail})")
    attrs = clist([f"({cstr(v['qname'])}, {cbool(v['py_required'])})" for v in m["attributes"] if v["kind"] == "attribute"],
                  str, "(str * bool)")
    any_attrs = any(v["kind"] == "attributes" for v in m["attributes"])
    mixed = any(v["kind"] == "wildcard" and v["mixed"] for v in m["elements"])
    return (f"(mk_gmeta {cstr(m['qname'])} {clist(plain + compound + wild, str, 'gfield')} {attrs} {cbool(any_attrs)} "
            f"{cbool(text)} {cbool(mixed)} {cbool(m['nillable'])})")


def itree_term(el):
    kids = clist([itree_term(c) for c in el if isinstance(c.tag, str)], str, "itree")
    atts = clist([f"({cstr(k)}, {cstr(v)})" for k, v in sorted(el.attrib.items())], str, "(str * str)")
    return f"(INode {cstr(el.tag)} {atts} [] {cstr(el.text or '')} {kids} {cstr(el.tail or '')})"


def parse_xml(txt):
    return etree.fromstring(txt.encode("utf-8"))


# ------------------------------------------------------------------ one set -> definitions + eval
def set_defs(k, s, rs):
    kind = s["kind"]
    tests = rs.get("tests") or {}
    tbl = clist([f"({cstr(v)}, {bools(t['strict'])})" for v, t in tests.items()], str, "(str * list bool)")
    vt = clist([f"({cstr(v)}, mk_vtests {bools(t['strict'])} {bools(t['lax'])})" for v, t in tests.items()], str, "(str * vtests)")
    d = [f"Definition TBL{k} : list (str * list bool) := {tbl}.", f"Definition VT{k} : list (str * vtests) := {vt}.",
         f"Definition CV{k} := sconv_of_table TBL{k}."]
    mapped = clist([classes_term(cs) for cs in rs["mapped"]], str, "(list fclass)")
    d.append(f"Definition MAPPED{k} : list (list fclass) := {mapped}.")
    d.append(f"Definition REDUCED{k} : list fclass := {classes_term(rs['reduced'])}.")
    metas = rs.get("meta") or []
    d.append(f"Definition MS{k} : list gmeta := {clist([gmeta_term(m, None) for m in metas], str, 'gmeta')}.")
    root = 0
    docs = rs.get("docs") or []
    if kind == "xml":
        d.append(f"Definition S{k} : list tree := {clist([tree_term(t) for t in rs['trees']], str, 'tree')}.")
        ios = []
        for txt, dr in zip(rs["samples"], docs):
            o = "None"
            if "ok" in dr:
                try:
                    o = f"(Some {itree_term(parse_xml(dr['ok']))})"
                except etree.XMLSyntaxError:
                    o = "None"
            ios.append(f"({itree_term(parse_xml(txt))}, {o})")
        d.append(f"Definition IO{k} : list (itree * option itree) := {clist(ios, str, '(itree * option itree)')}.")
        d.append(f"Definition MODEL{k} := classes_of_xml CV{k} S{k}.")
        d.append(f"Definition RAW{k} := reduce_classes_raw (concat (map (map_tree CV{k}) S{k})).")
        ev = (f"[ bs [agree_xml_mapped (TBL{k}, S{k}, MAPPED{k}); agree_reduced (MAPPED{k}, REDUCED{k}); "
              f"forallb (tree_fits MODEL{k}) S{k}; forallb (tree_fits REDUCED{k}) S{k}];"
              f" bs (map (tree_nil_ok MODEL{k}) S{k}); bs (map (doc_kind_empty_ok RAW{k}) S{k}); bs (map (doc_kind_leaf_ok RAW{k}) S{k});"
              f" bs (map (doc_nil_present_ok MODEL{k}) S{k}); bs (map (g_values_exact VT{k} MODEL{k}) S{k}); bs (map (doc_order_ok MODEL{k}) S{k}); bs (map (doc_ns_ok MODEL{k}) S{k});"
              f" map (validate MS{k} {cnat(root)}) S{k};"
              f" bs (map (fun io => match snd io with Some o => xml_same (fst io) o | None => false end) IO{k}) ]")
    else:
        name = s["package"].split(".")[-1]
        d.append(f"Definition S{k} : list json := {clist([json_term(t) for t in rs['trees']], str, 'json')}.")
        ios = []
        for txt, dr in zip(rs["samples"], docs):
            o = "None"
            if "ok" in dr:
                try:
                    o = f"(Some {json_term(json.loads(dr['ok']))})"
                except ValueError:
                    o = "None"
            ios.append(f"({json_term(json.loads(txt))}, {o})")
        d.append(f"Definition IO{k} : list (json * option json) := {clist(ios, str, '(json * option json)')}.")
        d.append(f"Definition NAME{k} : str := {cstr(name)}.")
        d.append(f"Definition MODEL{k} := classes_of_json CV{k} NAME{k} S{k}.")
        ev = (f"[ bs [agree_json_mapped (TBL{k}, NAME{k}, S{k}, MAPPED{k}); agree_reduced (MAPPED{k}, REDUCED{k}); "
              f"forallb (json_fits MODEL{k} NAME{k}) S{k}; forallb (json_fits REDUCED{k} NAME{k}) S{k}];"
              f" bs (map (g_json_strings CV{k}) S{k}); bs (map (g_json_exact VT{k} MODEL{k} NAME{k}) S{k});"
              f" map (jvalidate MS{k} {cnat(root)}) S{k};"
              f" bs (map (fun io => match snd io with Some o => json_same (fst io) o | None => false end) IO{k}) ]")
    return "\n".join(d), ev


# ------------------------------------------------------------------ classification
XML_GUARDS = [  # (row in the Coq result, class, outcomes it explains); clauses whose failure makes the outcome certain come first
    (1, "nil-not-first-occurrence", ("err",)),
    (5, "merged-types-inexact-value", ("diff", "warn", "err")),
    (4, "optional-nil-materialises", ("diff",)),
    (6, "sequence-groups-conflated", ("diff",)),
    (2, "empty-element-of-complex-type", ("err", "diff")),
    (7, "unqualified-element-in-two-contexts", ("err", "diff")),
    (3, "leaf-and-complex-same-name", ("err", "diff", "warn")),
]
JSON_GUARDS = [
    (1, "json-string-retyped", ("diff", "warn")),
    (2, "merged-types-inexact-value", ("diff", "warn", "err")),
]


def outcome_of(dr, same):
    if "err" in dr:
        return "err"
    if dr.get("warnings"):
        return "warn"
    return "ok" if same else "diff"


def run(ck: Check):
    ck.level = "translation_validation"
    obligations, discharged, axioms = standard_proof_step(ck, extra_targets=["Model/SampleCorr.vo", "Proofs/SampleGuarded.vo"])
    r = ck.rng
    NSETS = int(os.environ.get("C13_NSETS") or ck.n(200, 3000))

    sets = []
    if getattr(ck, "replay_file", None):
        rp = json.load(open(ck.replay_file))
        rp = rp.get("replay", rp)
        sets.append({"kind": rp["kind"], "samples": rp["samples"], "package": rp.get("package") or "gen.doc",
                     "features": {"replay": True}, "id": "replay"})
    else:
        for w in ([] if os.environ.get("C13_NO_WITNESS") else WITNESSES):
            sets.append({"kind": w["kind"], "samples": w["samples"], "package": w.get("package") or "gen.doc",
                         "features": {"witness": w["id"]}, "id": w["id"]})
        for i in range(NSETS):
            sets.append(gen_set(r, "xml" if i % 3 != 2 else "json", i))

    t0 = time.time()
    CH = 40
    chunks = [sets[i:i + CH] for i in range(0, len(sets), CH)]
    with cf.ThreadPoolExecutor(max_workers=8) as ex:
        parts = list(ex.map(lambda ch: run_impl("impl_c13.py", {"sets": ch}, timeout=3000, with_shims=True), chunks))
    res = [x for p in parts for x in p]
    impl_s = round(time.time() - t0, 1)

    def replay_of(i, **kw):
        out = {"kind": sets[i]["kind"], "package": sets[i].get("package"), "samples": res[i].get("samples")}
        out.update(kw)
        return out

    usable = []
    for i, (s, rs) in enumerate(zip(sets, res)):
        if "harness_error" in rs or "hidden_error" in rs:
            raise RuntimeError(f"C13 harness/generator failure on set {i}: " + (rs.get("harness_error") or rs.get("hidden_error")) + "\n" + rs.get("tb", ""))
        if "mapper_error" in rs:
            ck.failure("mapper-crash", f"the sample mapper raised {rs['mapper_error']['type']}: {rs['mapper_error']['msg']}",
                       replay_of(i, error=rs["mapper_error"]))
            continue
        usable.append(i)

    # ---------------- Coq: correspondence, theorem instances, guards, validator, round-trip verdicts
    SH = 3
    shards = [usable[i:i + SH] for i in range(0, len(usable), SH)]
    shard_times = []

    def eval_shard(si):
        defs, evals = [], []
        for k, i in enumerate(shards[si]):
            d, e = set_defs(k, sets[i], res[i])
            defs.append(d)
            evals.append(e)
        t1 = time.time()
        out = coq_multi(f"s{si}", "\n".join(defs), evals, timeout=900)
        shard_times.append(round(time.time() - t1, 1))
        return out

    with cf.ThreadPoolExecutor(max_workers=12) as ex:
        results = list(ex.map(eval_shard, range(len(shards))))
    verdicts = {}
    for si, sh in enumerate(shards):
        for k, i in enumerate(sh):
            verdicts[i] = results[si][k]

    stats = {"sets": len(sets), "docs": 0, "docs_ok": 0, "docs_regular": 0, "docs_regular_ok": 0, "validator_accepts": 0,
             "validator_rejects": 0, "validator_inconclusive": 0, "known_hits": {}, "codegen_failed": 0}
    distinct = set()
    for i in usable:
        s, rs, v = sets[i], res[i], verdicts[i]
        kind = s["kind"]
        corr = v[0]
        names = (["corr-xml-mapper", "corr-reduce-classes", "theorem-instance-samples-fit", "real-reduce-does-not-fit"] if kind == "xml"
                 else ["corr-json-mapper", "corr-reduce-classes", "theorem-instance-json-fit", "real-reduce-does-not-fit"])
        whats = ["Model/Sample.v disagrees with the real mapper output (per sample classes)",
                 "Model/Sample.v reduce_classes disagrees with ClassUtils.reduce_classes on the observed mapper output",
                 "the model's merged classes do not fit the samples (statement of samples_fit fails on this set)",
                 "the REAL reduce_classes output lacks a slot for a part of a sample node"]
        for flag, cls, what in zip(corr, names, whats):
            if not flag:
                ck.failure(cls, what, replay_of(i, mapped=rs.get("mapped"), reduced=rs.get("reduced")))
        g = rs["gen"]
        if g["status"] != "ok" or rs.get("root") is None:
            stats["codegen_failed"] += 1
            ck.failure("codegen-failed", f"code generation from the samples failed at {g['stage']}: {g['error']}", replay_of(i, gen=g))
            continue
        guards = XML_GUARDS if kind == "xml" else JSON_GUARDS
        val_row, same_row = v[-2], v[-1]
        for j, dr in enumerate(rs["docs"]):
            stats["docs"] += 1
            stats["docs_" + kind] = stats.get("docs_" + kind, 0) + 1
            distinct.add((i, j))
            out = outcome_of(dr, bool(same_row[j]))
            val = val_row[j]
            stats[{0: "validator_accepts", 1: "validator_rejects", 2: "validator_inconclusive"}[val]] += 1
            failing = [(cls, outs) for row, cls, outs in guards if not v[row][j]]
            regular = not failing
            stats["docs_regular"] += regular
            stats["docs_regular_" + kind] = stats.get("docs_regular_" + kind, 0) + regular
            if out == "ok":
                stats["docs_ok"] += 1
                stats["docs_regular_ok"] += regular
                if val == 1:
                    ck.failure("corr-validator-too-strict", "the per-node validator rejects a sample that the real parser accepts and reproduces",
                               replay_of(i, doc=j, meta=rs.get("meta")))
                continue
            detail = (f"{dr['err']}: {dr['msg'][:120]}" if "err" in dr else
                      ("warnings: " + "; ".join(dr["warnings"])[:160] if out == "warn" else "serialized output differs from the sample"))
            cls = next((c for c, outs in failing if out in outs), None)
            if cls is not None:
                stats["known_hits"][cls] = stats["known_hits"].get(cls, 0) + 1
                ck.failure(cls, f"sample {j} of a {kind} set: {detail}", replay_of(i, doc=j, impl=dr))
                continue
            if out == "err" and val == 0 and (dr["err"] == "TypeError" or dr["msg"].startswith("Unknown property")):
                ck.failure("validator-accepts-parse-fails", f"sample {j}: metadata validator accepts every node but the parser fails: {detail}",
                           replay_of(i, doc=j, impl=dr))
            base = {"err": "sample-rejected", "warn": "sample-conversion-warning", "diff": "sample-not-reproduced"}[out]
            ck.failure(base, f"sample {j} of a regular {kind} set: {detail}", replay_of(i, doc=j, impl=dr))

    ck.cov["evaluations"] = stats["docs"]
    ck.cov["distinct_nontrivial"] = len(distinct)
    ck.cov["rule"] = ("one case = one sample document of a generated set: mapped by the real mappers and by Model/Sample.v (compared), "
                      "generated classes' metadata validated per node in Coq, parsed strictly + serialized by the real code, verdict in Coq")
    feats = {}
    for s in sets:
        for kf, vf in s["features"].items():
            if isinstance(vf, bool) and vf:
                feats[kf] = feats.get(kf, 0) + 1
    ck.cov["input_distribution"] = {"sets": len(sets), "xml": sum(1 for s in sets if s["kind"] == "xml"),
                                    "json": sum(1 for s in sets if s["kind"] == "json"), "witness_sets": len(WITNESSES), "features": feats}
    ck.cov.update(stats)
    ck.cov["impl_seconds"] = impl_s
    ck.cov["coq_shard_seconds_max"] = max(shard_times or [0])
    ck.cov["samples"] = [{"kind": sets[i]["kind"], "samples": res[i].get("samples", [])[:2]} for i in usable[len(WITNESSES):len(WITNESSES) + 3]]
    return ck.finish(obligations=obligations, discharged=discharged,
                     checker_cmd="make -C coq Properties/C13.vo && coqc -Q coq XV coq/Properties/C13.v (Print Assumptions); "
                                 "per set: coqc coq/Corr/c13_s*.v (vm_compute of agree_* / tree_fits / validate / guards / xml_same)",
                     trusted_base=TRUSTED_COMMON + [
                         "tools/gen_sample.py (Gen/SampleTables.v)",
                         "the recorded converter.test table (type inference is an input of the model, not modelled)",
                         "stand-in renderer harness/render_standin.py (Jinja templates are not executed), shims for click/toposort/jinja2/requests",
                         "lxml (reading sample and output documents for the infoset verdict), json.loads",
                         "harness/cm_export.py + harness/c13.py metadata exporter",
                         "axioms: " + (", ".join(axioms) or "none (closed under the global context)")],
                     assumptions=["`regular` = the clauses g_kind_empty, g_kind_leaf, g_nil_present, g_values_exact, g_order (XML), g_json_exact (JSON) "
                                  "of Model/SampleCorr.v, evaluated in Coq per document; tree_nil_ok, doc_ns_ok, g_json_strings are theorems since "
                                  "the /repo fixes 359d494, 6637729, 9a0cfef and stay in the check as regression sentinels",
                                  "ClassContainer.process, Filters and XmlContext are validated per program, not modelled"])
