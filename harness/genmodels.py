"""Random binding models (as Python source over xsdata's documented class/field metadata)
and random instances of them (as JSON recipes), shared by the binding properties
(C01 C03 C04 C08 C09 C10 C14 C15).  Pure Python, no xsdata import: the *description*
dict is also the independent reading of the metadata (what the user wrote).

    m = gen_model(rng, slices={"F1","F2","F3"})        -> description dict
    src = render_source(m)                              -> module text (dataclasses)
    r = gen_instance(rng, m, m["root"])                 -> recipe (JSON-able)
    obj = build_instance(module_namespace, r)           -> real object (impl side)

Slices: F1 Element/Attribute/Text of primitives and classes, optional/list/tokens/nillable,
sequence, wrapper, namespaces; F2 Wildcard / Attributes / mixed; F3 compound Elements,
inheritance with xsi:type; F4 unions.
"""
import json

NS = ["urn:a", "urn:b", "http://example.com/c"]
PRIMS = ["str", "int", "bool", "float", "Decimal", "QName", "hex", "b64", "XmlDate", "XmlTime", "XmlDateTime",
         "XmlDuration", "XmlPeriod", "enum"]
PY_TYPE = {"object": "object", "str": "str", "int": "int", "bool": "bool", "float": "float", "Decimal": "Decimal", "QName": "QName",
           "hex": "bytes", "b64": "bytes", "XmlDate": "XmlDate", "XmlTime": "XmlTime", "XmlDateTime": "XmlDateTime",
           "XmlDuration": "XmlDuration", "XmlPeriod": "XmlPeriod"}
TEXT_ALPHA = "abcXYZ 019_-.:/&<>\"'éß中😀\n\t"
NAME_ALPHA = "abcdefgh"

HEADER = '''from dataclasses import dataclass, field
from decimal import Decimal
from enum import Enum
from typing import Optional, Union
from xml.etree.ElementTree import QName
from xsdata.models.datatype import XmlDate, XmlDateTime, XmlDuration, XmlPeriod, XmlTime
'''


# ------------------------------------------------------------------ model generation
def gen_model(r, slices=("F1",), n_classes=None, prims=None, uniform_ns=False):
    slices = set(slices)
    prims = list(prims or PRIMS)
    n = n_classes or r.randint(1, 5)
    module_ns = r.choice(NS) if uniform_ns else r.choice([None, None] + NS)
    enums = []
    if "enum" in prims:
        for i in range(r.randint(1, 2)):
            if r.random() < 0.6:
                members = [(f"M{j}", r.choice(["alpha", "beta", "g d", "x", "1", "true"]) + str(j)) for j in range(r.randint(1, 4))]
                enums.append({"name": f"E{i}", "base": "str", "members": members})
            else:
                members = [(f"M{j}", j * 7 - 3) for j in range(r.randint(1, 4))]
                enums.append({"name": f"E{i}", "base": "int", "members": members})
    classes = []
    for i in range(n):
        c = {"name": f"C{i}", "fields": [], "meta": {}, "base": None}
        k = r.random()
        if uniform_ns:
            c["meta"]["namespace"] = module_ns       # one namespace for elements and types alike
        elif k < 0.45:
            c["meta"]["namespace"] = r.choice(NS + [""])
        if r.random() < 0.3:
            c["meta"]["name"] = r.choice(["root", "item", "Thing", "x-y", "a.b"]) + str(i)
        if r.random() < 0.12:
            c["meta"]["nillable"] = True
        classes.append(c)
    # inheritance (F3): class i may extend an earlier... later class (fields come later)
    model = {"module_ns": module_ns, "classes": classes, "enums": enums, "root": "C0", "slices": sorted(slices)}
    # the effective namespace of a class without Meta.namespace depends on where it is used (it inherits the
    # parent's): ##targetNamespace constraints are only generated for classes that declare their namespace
    # fields: class i may only reference classes with larger index (no recursion => finite instances)
    for i, c in enumerate(classes):
        later = [x["name"] for x in classes[i + 1:]]
        nf = r.randint(1, 6)
        # simple content (Text + attributes) or complex content (elements): a Text field next to
        # child elements is not a supported shape (documented: Text = simple content value)
        simple = r.random() < 0.25
        c["simple"] = simple
        used_text = not simple
        seq_group = None
        for j in range(nf):
            f = gen_field(r, slices, prims, enums, later, j, used_text, c, simple)
            if f is None:
                continue
            if f["kind"] == "Text":
                used_text = True
            c["fields"].append(f)
        # a mixed wildcard absorbs every child element: such a class has attributes + that field only
        if not c["meta"].get("namespace"):
            for f in c["fields"]:
                if f.get("namespace") == "##targetNamespace":
                    f["namespace"] = "##any"
        mixed = [f for f in c["fields"] if f.get("mixed")]
        if mixed:
            c["fields"] = [f for f in c["fields"] if f["kind"] in ("Attribute", "Attributes") or f is mixed[0]]
        # a sequence group: two or three list element fields rendered interleaved
        if r.random() < 0.3:
            # fields of a sequence group must be adjacent (next_value slices attrs[index:end+1])
            def elig(f):
                return f["kind"] == "Element" and f.get("list") and not f.get("wrapper") and not f.get("tokens")
            fs = c["fields"]
            for a in range(len(fs) - 1):
                if elig(fs[a]) and elig(fs[a + 1]):
                    run = [fs[a], fs[a + 1]] + ([fs[a + 2]] if a + 2 < len(fs) and elig(fs[a + 2]) else [])
                    for f in run:
                        f["sequence"] = 1
                    break
    if "F4" in slices:
        # twin classes: same element/attribute names, different primitive types; used through Union[...] fields
        k = len(classes)
        tw = []
        for name, tp, kind in ((f"C{k}", "int", r.choice(["Element", "Attribute"])), (f"C{k + 1}", "str", None)):
            kind = kind or tw[0]["fields"][0]["kind"]
            tw.append({"name": name, "meta": {"name": "twin"}, "base": None, "simple": False, "twin": True,
                       "fields": [{"name": "value", "kind": kind, "type": ("prim", tp), "optional": False, "list": False},
                                  {"name": "extra", "kind": "Attribute", "type": ("prim", "bool"), "optional": True}]})
        classes.extend(tw)
        host = classes[0]
        if not host.get("simple") and not any(f.get("mixed") for f in host["fields"]):
            host["fields"].append({"name": "u0", "kind": "Element", "type": ("union", [tw[0]["name"], tw[1]["name"]]),
                                   "optional": True, "list": r.random() < 0.4})
            if r.random() < 0.5:
                host["fields"].append({"name": "u1", "kind": "Element", "type": ("punion", ["int", "str"]),
                                       "optional": True, "list": r.random() < 0.4})
    if "F3" in slices and r.random() < 0.7:
        # a subclass used through xsi:type: pick a class that some Element field refers to and derive from it
        referenced = []
        for c in classes:
            for f in c["fields"]:
                if f["kind"] == "Element" and f.get("type", ("", ""))[0] == "class":
                    referenced.append(f["type"][1])
        cands = [c for c in classes if c["name"] in referenced and not c.get("twin")
                 and not any(f["kind"] in ("Wildcard", "Attributes") for f in c["fields"])]
        if cands:
            base = r.choice(cands)
            sub = {"name": f"C{len(classes)}", "meta": {}, "base": base["name"], "simple": base.get("simple"), "fields": []}
            if "namespace" in base["meta"] and r.random() < 0.7:
                sub["meta"]["namespace"] = base["meta"]["namespace"]
            elif r.random() < 0.3 and not uniform_ns:
                sub["meta"]["namespace"] = r.choice(NS)
            for j in range(r.randint(1, 2)):
                tp = gen_type(r, [p for p in prims if p != "enum"], enums, [])
                kind = "Attribute" if base.get("simple") or r.random() < 0.5 else "Element"
                f = {"name": f"g{j}", "kind": kind, "type": tp, "optional": True, "list": False}
                if tp[0] == "prim" and tp[1] in ("hex", "b64"):
                    f["format"] = "base16" if tp[1] == "hex" else "base64"
                sub["fields"].append(f)
            classes.append(sub)
    return model


def gen_field(r, slices, prims, enums, later, j, used_text, c, simple=False):
    if simple:
        kinds = ["Attribute"] * 2 + (["Text"] * 3 if not used_text else [])
        if "F2" in slices:
            kinds += ["Attributes"]
    else:
        kinds = ["Element"] * 5 + ["Attribute"] * 3
        if "F2" in slices:
            kinds += ["Wildcard", "Attributes", "AnyType"]
        if "FA" in slices:
            kinds += ["AnyType", "AnyType"]
        if "F3" in slices:
            kinds += ["Elements"]
    kind = r.choice(kinds)
    if kind == "AnyType":
        # xs:anyType element: Optional[object] with type Element, holding simple text
        return {"name": f"f{j}", "kind": "Element", "type": ("prim", "object"), "optional": True, "list": False}
    f = {"name": f"f{j}", "kind": kind}
    if kind in ("Element", "Attribute", "Text"):
        tp = gen_type(r, prims, enums, later if kind == "Element" else [])
        f["type"] = tp
        if kind == "Element":
            k = r.random()
            if tp[0] == "class":
                f["list"] = k < 0.35
                f["optional"] = not f["list"] and k < 0.8
            else:
                f["list"] = k < 0.3
                f["optional"] = not f["list"] and k < 0.7
                if r.random() < 0.15 and token_ok(tp, enums):
                    f["tokens"] = True           # list of tokens in one element
                    f["list"] = r.random() < 0.3  # list of token lists
            if r.random() < 0.15:
                f["nillable"] = True
            if f.get("list") and not f.get("tokens") and r.random() < 0.2:
                f["wrapper"] = r.choice(["items", "wrap", "list"]) + str(j)
            if r.random() < 0.25:
                f["namespace"] = r.choice(NS + [""])
        elif kind == "Attribute":
            f["optional"] = r.random() < 0.7
            if r.random() < 0.2 and token_ok(tp, enums):
                f["tokens"] = True
            if r.random() < 0.15:
                f["namespace"] = r.choice(NS)
            if r.random() < 0.2 and tp[0] == "prim" and tp[1] in ("int", "str", "bool"):
                f["default"] = {"int": 7, "str": "dflt", "bool": True}[tp[1]]
                f["optional"] = False
        else:  # Text
            f["optional"] = r.random() < 0.5
            if r.random() < 0.15 and token_ok(tp, enums):
                f["tokens"] = True
        if r.random() < 0.3:
            f["xml_name"] = r.choice(["n", "item", "v-1", "A", "x.y"]) + str(j)
        if tp[0] == "prim" and tp[1] in ("hex", "b64"):
            f["format"] = "base16" if tp[1] == "hex" else "base64"
    elif kind == "Wildcard":
        if any(x["kind"] == "Wildcard" for x in c["fields"]):
            return None
        f["list"] = r.random() < 0.6
        f["namespace"] = r.choice(["##any", "##other", "##any", "##local", "##targetNamespace"])
        if r.random() < 0.25:
            f["mixed"] = True
            f["list"] = True
    elif kind == "Attributes":
        if any(x["kind"] == "Attributes" for x in c["fields"]):
            return None
        f["namespace"] = r.choice(["##any", "##any", "##other", "##local", "##targetNamespace"])
    elif kind == "Elements":
        nch = r.randint(2, 3)
        chs = []
        for k in range(nch):
            tp = gen_type(r, [p for p in prims if p in ("str", "int", "bool", "float", "XmlDate")], enums, later)
            if any(ch["type"] == tp for ch in chs):
                continue
            chs.append({"name": f"ch{j}_{k}", "type": tp})
        if len(chs) < 2:
            return None
        f["choices"] = chs
        f["list"] = r.random() < 0.7
    return f


def token_ok(tp, enums):
    """can values of this type be written as whitespace separated tokens?"""
    if tp[0] == "prim":
        return tp[1] != "str"
    if tp[0] == "enum":
        e = next(x for x in enums if x["name"] == tp[1])
        return all(" " not in str(v) for _, v in e["members"])
    return False


def gen_type(r, prims, enums, later):
    if later and r.random() < 0.4:
        return ("class", r.choice(later))
    p = r.choice(prims)
    if p == "enum":
        if not enums:
            return ("prim", "str")
        return ("enum", r.choice(enums)["name"])
    return ("prim", p)


# ------------------------------------------------------------------ source rendering
def py_type_of(tp):
    if tp[0] == "prim":
        return PY_TYPE[tp[1]]
    if tp[0] == "union":
        return "Union[" + ", ".join('"%s"' % n for n in tp[1]) + "]"
    if tp[0] == "punion":
        return "Union[" + ", ".join(PY_TYPE[n] for n in tp[1]) + "]"
    return tp[1]   # enum or class name (forward refs are strings)


def render_field(f):
    md = {}
    kind = f["kind"]
    md["type"] = kind
    if f.get("xml_name"):
        md["name"] = f["xml_name"]
    for k in ("namespace", "nillable", "tokens", "sequence", "wrapper", "format", "mixed"):
        if f.get(k) not in (None, False):
            md[k] = f[k]
    if kind in ("Element", "Attribute", "Text"):
        base = py_type_of(f["type"])
        q = f'"{base}"' if f["type"][0] == "class" else base

        if f.get("tokens"):
            inner = f"list[{q}]"
            ann = f"list[{inner}]" if f.get("list") else inner
            default = "default_factory=list"
        elif f.get("list"):
            ann = f"list[{q}]"
            default = "default_factory=list"
        elif "default" in f:
            ann = q
            default = f"default={f['default']!r}"
        elif f.get("optional", True):
            ann = f"Optional[{q}]"
            default = "default=None"
        else:
            ann = f"Optional[{q}]"
            default = "default=None"
            md["required"] = True
    elif kind == "Wildcard":
        ann = "list[object]" if f.get("list") else "Optional[object]"
        default = "default_factory=list" if f.get("list") else "default=None"
    elif kind == "Attributes":
        ann = "dict[str, str]"
        default = "default_factory=dict"
    elif kind == "Elements":
        tps = []
        chs = []
        for ch in f["choices"]:
            b = py_type_of(ch["type"])
            tps.append(f'"{b}"' if ch["type"][0] == "class" else b)
            chs.append({"name": ch["name"], "type": "__T__" + b})
        md["choices"] = chs
        u = "Union[" + ", ".join(tps) + "]"
        ann = f"list[{u}]" if f.get("list") else f"Optional[{u}]"
        default = "default_factory=list" if f.get("list") else "default=None"
    mds = repr(md)
    # choice types must be real type objects; forward references are given as ForwardRef-able strings for classes
    import re
    mds = re.sub(r"'__T__(\w+)'", lambda m: m.group(1) if m.group(1) in set(PY_TYPE.values()) else f"ForwardRef({m.group(1)!r})", mds)
    return f"    {f['name']}: {ann} = field({default}, metadata={mds})"


def render_source(m):
    out = [HEADER, "from typing import ForwardRef\n"]
    if m.get("module_ns"):
        out.append(f"__NAMESPACE__ = {m['module_ns']!r}\n")
    for e in m["enums"]:
        out.append(f"class {e['name']}(Enum):")
        for n, v in e["members"]:
            out.append(f"    {n} = {v!r}")
        out.append("")
    # bases must be defined before subclasses
    order = []
    done = set()

    def emit(c):
        if c["name"] in done:
            return
        if c.get("base"):
            emit(next(x for x in m["classes"] if x["name"] == c["base"]))
        done.add(c["name"])
        order.append(c)

    for c in m["classes"]:
        emit(c)
    for c in order:
        out.append("@dataclass")
        out.append(f"class {c['name']}({c['base']}):" if c.get("base") else f"class {c['name']}:")
        if c["meta"]:
            out.append("    class Meta:")
            for k, v in c["meta"].items():
                out.append(f"        {k} = {v!r}")
        for f in c["fields"]:
            out.append(render_field(f))
        if not c["fields"] and not c["meta"]:
            out.append("    pass")
        out.append("")
    return "\n".join(out)


# ------------------------------------------------------------------ instances
def gen_text(r, tokens=False, attr=False):
    n = r.choice([0, 1, 1, 2, 3, 5, 9])
    alpha = TEXT_ALPHA if not tokens else "abcXYZ019_-.:/&<>\"'éß中"
    s = "".join(r.choice(alpha) for _ in range(n))
    if tokens and not s:
        s = "t"
    return s


def gen_prim(r, m, tp, tokens=False):
    k = tp[1]
    if k == "object":
        return {"__p__": "str", "v": r.choice(["plain", "some text", "x1", "a b c"])}
    if tp[0] == "enum":
        e = next(x for x in m["enums"] if x["name"] == k)
        return {"__p__": "enum", "enum": k, "member": r.choice(e["members"])[0]}
    if k == "str":
        return {"__p__": "str", "v": gen_text(r, tokens)}
    if k == "int":
        return {"__p__": "int", "v": r.choice([0, 1, -1, 7, 2 ** 31, -2 ** 63, 10 ** 30, r.randint(-10 ** 6, 10 ** 6)])}
    if k == "bool":
        return {"__p__": "bool", "v": r.random() < 0.5}
    if k == "float":
        return {"__p__": "float", "v": r.choice(["0.0", "-0.0", "1.5", "inf", "-inf", "nan", "1e+22", "5e-324", "1.7976931348623157e+308", repr(r.uniform(-1e6, 1e6))])}
    if k == "Decimal":
        return {"__p__": "Decimal", "v": r.choice(["0", "1.50", "-3.14159", "1E+5", "0.000001", "123456789012345678901234567890.5", str(r.randint(-999, 999)) + "." + str(r.randint(0, 999))])}
    if k == "QName":
        return {"__p__": "QName", "v": r.choice(["{urn:a}x", "{urn:q}name", "local", "{http://www.w3.org/2001/XMLSchema}string", "{urn:b}a.b-c"])}
    if k in ("hex", "b64"):
        # an empty token cannot be written in a whitespace separated list
        return {"__p__": "bytes", "v": [r.randrange(256) for _ in range(r.choice(([] if tokens else [0]) + [1, 2, 3, 4, 7, 16]))]}
    if k == "XmlDate":
        return {"__p__": "XmlDate", "v": r.choice(["2001-02-28", "-0044-03-15Z", "2020-02-29+14:00", "12000-01-01-05:30"])}
    if k == "XmlTime":
        return {"__p__": "XmlTime", "v": r.choice(["00:00:00", "23:59:59.999999999Z", "24:00:00", "12:30:00.5-01:00"])}
    if k == "XmlDateTime":
        return {"__p__": "XmlDateTime", "v": r.choice(["2001-02-28T23:00:00Z", "2020-02-29T24:00:00", "-0001-12-31T12:00:00.123+02:00"])}
    if k == "XmlDuration":
        return {"__p__": "XmlDuration", "v": r.choice(["P1Y", "PT1.5S", "-P2Y6M5DT12H35M30S", "P0D"])}
    if k == "XmlPeriod":
        return {"__p__": "XmlPeriod", "v": r.choice(["--02-29", "2001", "---31Z", "--11", "2001-05+02:00"])}
    raise KeyError(k)


def find_class(m, name):
    return next(c for c in m["classes"] if c["name"] == name)


def all_fields(m, c):
    fs = []
    if c.get("base"):
        fs += all_fields(m, find_class(m, c["base"]))
    return fs + c["fields"]


def subclasses_of(m, name):
    return [c["name"] for c in m["classes"] if c.get("base") == name]


def any_qname(r, constraint, class_ns):
    """a qualified name admitted by a wildcard namespace constraint"""
    if constraint == "##local":
        return r.choice(["w", "k", "deep"])
    if constraint == "##targetNamespace":
        return ("{%s}" % class_ns if class_ns else "") + r.choice(["w", "k"])
    if constraint == "##other":
        return "{urn:other}" + r.choice(["w", "k", "deep"])
    return r.choice(["{urn:x}w", "w", "{urn:a}k", "{urn:y}deep"])


def gen_any(r, depth=0, constraint="##any", class_ns=None, tail_ok=False):
    q = any_qname(r, constraint if depth == 0 else "##any", class_ns)
    ch = [] if depth > 1 else [gen_any(r, depth + 1, tail_ok=True) for _ in range(r.choice([0, 0, 1, 2]))]
    # an element without text is read back with text "" (never None); whitespace-only text next to
    # children is dropped by design
    text = r.choice(["", "t", "some text"]) if not ch else r.choice(["", "lead"])
    return {"__any__": {"qname": q, "text": text, "tail": r.choice([None, None, "tl"]) if tail_ok else None,
                        "attributes": {} if r.random() < 0.6 else {r.choice(["a", "{urn:x}b"]): "v"}, "children": ch}}


def class_namespace(m, c):
    if "namespace" in c["meta"]:
        return c["meta"]["namespace"] or None
    return m.get("module_ns")


def gen_value(r, m, f, depth, class_ns=None):
    kind = f["kind"]
    if kind in ("Element", "Attribute", "Text"):
        tp = f["type"]

        def one():
            if tp[0] == "union":
                return gen_instance(r, m, r.choice(tp[1]), depth + 1)
            if tp[0] == "punion":
                k = r.choice(tp[1])
                p = gen_prim(r, m, ("prim", k))
                if k == "str":
                    p["v"] = "n/a " + p["v"].strip()     # not convertible to the earlier candidate types
                return p
            if tp[0] == "class":
                subs = subclasses_of(m, tp[1])
                name = r.choice(subs) if subs and r.random() < 0.5 else tp[1]
                return gen_instance(r, m, name, depth + 1)
            p = gen_prim(r, m, tp, tokens=f.get("tokens"))
            if kind == "Text" and p.get("__p__") == "str" and p["v"] == "":
                p["v"] = "t"     # "" in a Text field is not distinguishable from absence in XML
            if kind == "Text" and p.get("__p__") == "bytes" and not p["v"]:
                p["v"] = [7]
            return p

        if f.get("tokens"):
            def toks():
                return [one() for _ in range(r.choice([1, 1, 2, 3]))]
            if f.get("list"):
                return [toks() for _ in range(r.choice([0, 1, 2]))]
            return toks() if (r.random() < 0.7 or not f.get("optional", True)) else []
        if f.get("list"):
            return [one() for _ in range(r.choice([0, 1, 2, 3]))]
        if "default" in f:
            return one() if r.random() < 0.6 else {"__p__": tp[1], "v": f["default"]}
        if f.get("optional", True) and r.random() < 0.33:
            return None
        return one()
    if kind == "Wildcard":
        cons, cns = f.get("namespace", "##any"), class_ns
        if f.get("mixed"):
            # canonical mixed content: optional leading text, then elements carrying their tails
            out = []
            if r.random() < 0.5:
                out.append({"__p__": "str", "v": r.choice(["txt", "more text", "x"])})
            for _ in range(r.choice([0, 1, 2, 3])):
                out.append(gen_any(r, 0, cons, cns, tail_ok=True))
            return out
        if f.get("list"):
            return [gen_any(r, 0, cons, cns) for _ in range(r.choice([0, 1, 2]))]
        return gen_any(r, 0, cons, cns) if r.random() < 0.7 else None
    if kind == "Attributes":
        cons = f.get("namespace", "##any")
        pool = {"##any": ["x", "{urn:z}y", "{urn:a}z"], "##local": ["x", "y"], "##other": ["{urn:other}y", "{urn:other2}z"],
                "##targetNamespace": ["{%s}y" % class_ns, "{%s}z" % class_ns] if class_ns else ["x", "y"]}[cons]
        return {"__map__": {k: r.choice(["v", "1", "a b"]) for k in r.sample(pool, r.choice([0, 1, 2]))}}
    if kind == "Elements":
        def one():
            ch = r.choice(f["choices"])
            tp = ch["type"]
            if tp[0] == "class":
                return gen_instance(r, m, tp[1], depth + 1)
            p = gen_prim(r, m, tp)
            if p.get("__p__") == "str":
                # the value chooses the element by converter.test in declaration order (documented
                # priority): keep strings that no other choice type accepts
                p["v"] = "s-" + p["v"].strip()
            return p
        if f.get("list"):
            return [one() for _ in range(r.choice([0, 1, 2, 3]))]
        return one() if r.random() < 0.7 else None
    raise KeyError(kind)


def gen_instance(r, m, cname, depth=0):
    c = find_class(m, cname)
    cns = class_namespace(m, c)
    rec = {"__cls__": cname, "fields": {f["name"]: gen_value(r, m, f, depth, cns) for f in all_fields(m, c)}}
    if c.get("twin"):
        v = rec["fields"]["value"]
        if v.get("__p__") == "str":
            v["v"] = "n/a" + v["v"].strip()          # a value only the str twin can hold
    return rec


# ------------------------------------------------------------------ impl side
def build_instance(ns, rec):
    """recipe -> real object, inside the implementation interpreter; ns = exec'd module namespace"""
    from decimal import Decimal
    from xml.etree.ElementTree import QName

    from xsdata.formats.dataclass.models.generics import AnyElement
    from xsdata.models.datatype import XmlDate, XmlDateTime, XmlDuration, XmlPeriod, XmlTime

    def b(x):
        if x is None:
            return None
        if isinstance(x, list):
            return [b(y) for y in x]
        if "__cls__" in x:
            return ns[x["__cls__"]](**{k: b(v) for k, v in x["fields"].items()})
        if "__any__" in x:
            a = x["__any__"]
            return AnyElement(qname=a["qname"], text=a["text"], tail=a["tail"], attributes=dict(a["attributes"]),
                              children=[b(c) for c in a["children"]])
        if "__map__" in x:
            return dict(x["__map__"])
        p = x["__p__"]
        v = x.get("v")
        if p == "enum":
            return ns[x["enum"]][x["member"]]
        if p in ("str", "int", "bool"):
            return v
        if p == "float":
            return float(v)
        if p == "Decimal":
            return Decimal(v)
        if p == "QName":
            return QName(v)
        if p == "bytes":
            return bytes(v)
        if p == "XmlDate":
            return XmlDate.from_string(v)
        if p == "XmlTime":
            return XmlTime.from_string(v)
        if p == "XmlDateTime":
            return XmlDateTime.from_string(v)
        if p == "XmlDuration":
            return XmlDuration(v)
        if p == "XmlPeriod":
            return XmlPeriod(v)
        raise KeyError(p)

    return b(rec)


def load_module(src, name="genmodel"):
    """exec the generated source as a real module (needed so that XmlContext finds the classes)"""
    import sys
    import types

    mod = types.ModuleType(name)
    mod.__dict__["__name__"] = name
    sys.modules[name] = mod
    exec(compile(src, name + ".py", "exec"), mod.__dict__)
    return mod


if __name__ == "__main__":
    import random
    import sys
    r = random.Random(int(sys.argv[1]) if len(sys.argv) > 1 else 0)
    m = gen_model(r, slices=("F1", "F2", "F3"))
    print(render_source(m))
    print(json.dumps(gen_instance(r, m, m["root"]), indent=1)[:2000])
