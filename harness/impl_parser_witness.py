"""harness/impl_parser_witness.py: print the Coq definitions for the witness universes/streams (input of Proofs/ParserWitness.v)"""
import sys, os
sys.path.insert(0, '/verif/harness')
import impl_parser as ip
out = [f"Definition dt_table : list (qname * option (ptype * option str * option ptype)) := {ip.dt_table_term()}."]
for name in ("required", "wildtail", "anytype", "noinitwild", "scalarwild"):
    job = {"id": 0, "seed": 1, "mode": "c15", "model": {"extra": name}}
    r, model, obj, info, data, base = ip.prepare(job)
    out.append(f"(* ---- model `{name}`:\n{ip.EXTRA[name]['src']}*)")
    out.append(f"Definition u_{name} : universe := {info['universe']}.")
    out.append(f"Definition nodefault_{name} : list (cls * list str) := {info['nodefault']}.")
    out.append(f"Definition root_{name} : cls := {info['root']}.")
    out.append(f"Definition g_{name} : generics := {info['generics']}.")
    for tag, xml in ip.WITNESS.get(name, []):
        model.ex.rec = ip.Recorder(model.ex)
        o = ip.record_doc(model, xml.encode(), (False, False, False), ip.XmlEventHandler)
        o["conv_term"] = model.ex.rec.table_term()
        t = tag.replace("-", "_")
        out.append(f"(* {xml}  ->  {o['kind']} {o.get('exc')} {o.get('msg')} *)")
        out.append(f"Definition ev_{t} : list pevent := {ip.events_term(o['events'])}.")
        out.append(f"Definition tbl_{t} : conv_table := {o['conv_term']}.")
        out.append(f"Definition obs_{t} : outcome := {o['obs_term']}.")
    for tag, evs in ip.WITNESS_EVENTS.get(name, []):
        model.ex.rec = ip.Recorder(model.ex)
        o = ip.run_events(model, evs, (True, False, False))
        o["conv_term"] = model.ex.rec.table_term()
        t = tag.replace("-", "_")
        out.append(f"(* events {evs}  ->  {o['kind']} {o.get('exc')} {o.get('msg')} *)")
        out.append(f"Definition ev_{t} : list pevent := {ip.events_term(evs)}.")
        out.append(f"Definition tbl_{t} : conv_table := {o['conv_term']}.")
        out.append(f"Definition obs_{t} : outcome := {o['obs_term']}.")
print("\n".join(out))
