"""Implementation-side driver of the C09 guard check (runs under /venv/bin/python, PYTHONPATH=/repo).

For generated models / instances: render, record the parser events of the document and of a REWRITTEN document
(through the real native handler, RecordParser), export both streams and both outcomes as Gallina terms.  The
harness then evaluates IN COQ the hypotheses of the C09 theorems on the pair of streams (ws_variant_n,
lookup-equivalence of the maps, attribute permutation) and compares the observed outcomes.

JSON in: {"jobs": [{"id", "seed", "model": {...}, "n": k}]}; out: {"dt_table", "jobs": [...]}.
kinds of rewrite:
  ws      whitespace between the children of element-only content (harness/xmlrewrite.py, as the oracle of c09.py)
  redecl  same prefixes, declarations shuffled / redundantly repeated / xmlns="" added where no default is in scope
  attrs   attribute order (xmlrewrite attr_order)
  f3      the witness pair of finding C09-F3 (prefix renamed; an Attributes value that looks like a QName)
"""
import io
import json
import os
import random
import re
import sys
import traceback

sys.path.insert(0, os.path.dirname(os.path.abspath(__file__)))

import impl_parser as IP  # noqa: E402
import impl_c08 as R  # noqa: E402
import xmlrewrite as X  # noqa: E402
from bind_export import cN, cbool  # noqa: E402

from lxml import etree as LET  # noqa: E402
from xsdata.formats.dataclass.parsers.handlers import LxmlEventHandler, XmlEventHandler  # noqa: E402

F3_DOCS = [('<AW xmlns:p="urn:p" k="p:v" h="p://x"><c m="p:n" h="p://y"/></AW>', '<AW xmlns:q="urn:p" k="p:v" h="p://x"><c m="p:n" h="p://y"/></AW>'),
           ('<AW xmlns:p="urn:p" k="p:v"/>', '<AW k="p:v"/>')]


# attribute order on an Attributes map / generic element with several entries (rare in generated instances)
ATTR_DOCS = [('<AW a="1" b="2" c="3" d="4"><c x="1" y="2" z="3"/></AW>', '<AW d="4" c="3" b="2" a="1"><c z="3" x="1" y="2"/></AW>'),
             ('<AW xmlns:p="urn:p" p:a="1" b="p:2" c="3"/>', '<AW xmlns:p="urn:p" c="3" b="p:2" p:a="1"/>')]


def element_only(e):
    return len(e) > 0 and not (e.text or "").strip() and all(not (c.tail or "").strip() for c in e)


def redeclare(r, st):
    """lookup-preserving changes of the declarations"""
    def go(n, scope):
        own = dict((p, u) for p, u in n["decls"])
        r.shuffle(n["decls"])
        for p, u in list(scope.items()):
            if p not in own and p is not None and u and r.random() < 0.3:
                n["decls"].append([p, u])          # redundant redeclaration
        if None not in own and None not in scope and r.random() < 0.2:
            n["decls"].append([None, ""])          # xmlns="" where no default namespace is in scope
        sc = dict(scope)
        for p, u in n["decls"]:
            sc[p] = u
        for k in n["kids"]:
            go(k, sc)
    go(st, {})


def case_term(info, cfg, a, b):
    return ("({cfg}, tbl_{id}, u_{id}, Some {root}, {ea}, {eb}, {oa}, {ob})".format(
        cfg=f"(mk_pconfig {cbool(cfg[0])} {cbool(cfg[1])} {cbool(cfg[2])} nd_{info['id']})", id=info["id"], root=info["root"],
        ea=a["events_term"], eb=b["events_term"], oa=a["obs_term"], ob=b["obs_term"]))


def pair(model, info, cfg, kind, d0, d1, what=None, handler=XmlEventHandler):
    a = R.record(model, lambda: io.BytesIO(d0), cfg, handler)
    b = R.record(model, lambda: io.BytesIO(d1), cfg, handler)
    case = {"kind": kind, "cfg": list(cfg), "doc": d0.decode("utf-8", "replace")[:2500], "doc2": d1.decode("utf-8", "replace")[:2500],
            "what": what, "summary": {"a": R.summary(a), "b": R.summary(b)}}
    bad = [o.get("unsupported") for o in (a, b) if o.get("unsupported")] + \
          ["timeout" for o in (a, b) if o["kind"] == "timeout"] + \
          ["outcome not expressible" for o in (a, b) if o.get("obs_term") is None and o["kind"] != "timeout"]
    if bad:
        case["unsupported"] = "; ".join(map(str, bad))[:300]
        return case
    case["term"] = case_term(info, cfg, a, b)
    case["same_events"] = a["events"] == b["events"]
    return case


def unqualified_qname_content(xml_bytes):
    """an unprefixed xsi:type value with no default namespace in scope denotes a name in NO namespace; such a value
    cannot be spelled under a default namespace, so the 'default_ns' rewrite (which leaves it alone) would change
    its meaning - the rewriter's limitation, not the parser's"""
    root = LET.fromstring(xml_bytes)
    for e in root.iter():
        if not isinstance(e.tag, str):
            continue
        v = e.attrib.get(X.XSI_TYPE)
        if v is not None and ":" not in v.strip() and not e.nsmap.get(None):
            return True
    return False


def oracle_job(job):
    """the end-to-end rewrite oracle (formerly op 'rewrite' of impl_binding.py): compositions of meaning-preserving
    rewrites, both handlers, equal objects"""
    import genmodels as G
    import impl_binding_lib as B
    out = []
    mod = G.load_module(job["src"], job["name"])
    from xsdata.formats.dataclass.context import XmlContext
    from xsdata.formats.dataclass.parsers import XmlParser
    from xsdata.formats.dataclass.serializers import XmlSerializer
    from xsdata.formats.dataclass.parsers.handlers import LxmlEventHandler
    ctx = XmlContext()
    objs = [G.build_instance(mod.__dict__, r) for r in job["instances"]]
    handlers = {"native": XmlEventHandler, "lxml": LxmlEventHandler}
    for case in job["cases"]:
        obj = objs[case["i"]]
        import signal
        signal.alarm(30)
        try:
            rr = random.Random(case["seed"])
            xml = XmlSerializer(context=ctx).render(obj)
            base = XmlParser(context=ctx).from_string(xml, type(obj))
            mode = case["mode"]
            no_default = unqualified_qname_content(xml.encode())
            trials = []
            for _ in range(case.get("n", 3)):
                kinds = [k for k in X.KINDS if rr.random() < 0.45 and k not in ("ws_between_children", "value_ws")]
                if rr.random() < 0.3 or ("xsi:type" in xml and not trials):
                    kinds = sorted(set(kinds) | {"default_ns", "qname_attrs"})
                if no_default and "default_ns" in kinds:
                    kinds.remove("default_ns")
                eo = None
                pad = False
                if mode == "element_only":
                    kinds.append("ws_between_children")
                    eo = element_only
                if mode == "value_ws":
                    kinds.append("value_ws")
                    pad = True
                doc = X.rewrite(xml, kinds, rr, element_only=eo, pad_values=pad)
                if mode == "general" and X.infoset(doc) != X.infoset(xml.encode()):
                    trials.append({"kinds": kinds, "infoset_changed": True, "doc": doc.decode("utf-8", "replace")[:2000], "handler": "-"})
                    continue
                for hname, h in handlers.items():
                    t = {"kinds": kinds, "handler": hname}
                    try:
                        back = XmlParser(context=ctx, handler=h).from_bytes(doc, type(obj))
                        d = B.eq(base, back)
                        t["ok"] = d is None
                        if d is not None:
                            t["why"] = "differs at " + d
                            t["doc"] = doc.decode("utf-8", "replace")[:3000] if not doc.startswith(b"\xff\xfe") else doc.decode("utf-16")[:3000]
                            t["orig"] = xml[:3000]
                    except Exception as e:  # noqa
                        t["ok"] = False
                        t["why"] = type(e).__name__ + ": " + str(e)[:200]
                        t["doc"] = doc.decode("utf-8", "replace")[:3000]
                        t["orig"] = xml[:3000]
                    trials.append(t)
            out.append({"trials": trials})
        except IP.Timeout:
            out.append({"exc": "Timeout"})
        except Exception as e:  # noqa
            out.append({"exc": type(e).__name__, "msg": str(e)[:300], "tb": traceback.format_exc()[-600:]})
        finally:
            signal.alarm(0)
    sys.modules.pop(job["name"], None)
    return {"results": out}


LIST_SRC = '''
@dataclass
class L:
    ints: list[int] = field(default_factory=list, metadata={"type": "Element", "tokens": True})
    names: list[str] = field(default_factory=list, metadata={"type": "Element", "tokens": True})
    rows: list[list[float]] = field(default_factory=list, metadata={"type": "Element", "tokens": True})
    flags: list[bool] = field(default_factory=list, metadata={"type": "Attribute", "tokens": True})
    ids: list[int] = field(default_factory=list, metadata={"type": "Attribute", "tokens": True})
'''


def list_ws_job(job):
    """XSD list values: the items are separated by any run of whitespace (space, tab, line feed, carriage return); the
    second document replaces every single space of the rendered lists by such a run (character references in
    attribute values, where the XML parser would normalise literal tabs and line feeds)"""
    from xsdata.formats.dataclass.serializers import XmlSerializer
    model = IP.Model(IP.full_source(LIST_SRC), "L")
    info = {"id": job["id"], "seed": job["seed"], "model": job["model"], "source": model.src,
            "universe": model.ex.universe_term(), "nodefault": model.nodefault_term(), "root": cN(model.ex.cid[model.root])}
    r = random.Random(job["seed"])
    cases = []
    L = model.root
    for _ in range(job.get("n", 10)):
        def ints():
            return [r.choice([0, 1, -7, 12345]) for _ in range(r.choice([0, 1, 2, 3, 5]))]
        obj = L(ints=ints(), names=[r.choice(["a", "b-c", "x1", "\u00e9"]) for _ in range(r.choice([0, 1, 2, 4]))],
                rows=[[r.choice([1.5, -2.0, 0.25]) for _ in range(r.choice([1, 2, 3]))] for _ in range(r.choice([0, 1, 2]))],
                flags=[r.random() < 0.5 for _ in range(r.choice([0, 1, 2, 3]))], ids=ints())
        xml = XmlSerializer(context=model.ctx).render(obj)
        st = R.struct_of(LET.fromstring(xml.encode()), {})

        def sep():
            return r.choice(["\t", "\n", "  ", " \n\t ", "\r\n", "\t\t", " "])
        for n in R.walk(st):
            if n["text"] and " " in n["text"]:
                n["text"] = r.choice(["", "\n", "\t"]) + "".join(sep() if ch == " " else ch for ch in n["text"]) + r.choice(["", " ", "\n"])
            n["attrs"] = [[k, "".join(sep() if ch == " " else ch for ch in v)] for k, v in n["attrs"]]
        d1 = R.print_doc(r, st).encode()
        for h, what in ((XmlEventHandler, None), (LxmlEventHandler, "lxml")):
            cases.append(pair(model, info, (True, False, False), "list_ws", xml.encode(), d1, what=what, handler=h))
    info["conv"] = model.ex.rec.table_term()
    model.close()
    return dict(info, cases=cases)


# ------------------------------------------------------------------ declarations carried by WRAPPER elements
# A field with metadata wrapper=... has an intermediate element that no class describes (WrapperNode).  Its own
# namespace declarations are in scope for the wrapped items: QName-typed items, QName attributes / QName enums of wrapped
# objects, xsi:type values of wrapped generic items, and wrappers nested in wrapped objects.
WRAP_SRC = '''
class WQE(Enum):
    OA = QName("{urn:outer}a")
    IA = QName("{urn:inner}a")
    XA = QName("{urn:x}a")

@dataclass
class Item:
    class Meta:
        name = "item"
    kind: Optional[QName] = field(default=None, metadata={"type": "Attribute"})
    en: Optional[WQE] = field(default=None, metadata={"type": "Attribute"})
    ref: list[QName] = field(default_factory=list, metadata={"type": "Element"})
    names: list[QName] = field(default_factory=list, metadata={"type": "Element", "name": "name", "wrapper": "names"})
    parts: list["Item"] = field(default_factory=list, metadata={"type": "Element", "name": "part", "wrapper": "parts"})

@dataclass
class Box:
    class Meta:
        name = "box"
    title: Optional[str] = field(default=None, metadata={"type": "Element"})
    types: list[QName] = field(default_factory=list, metadata={"type": "Element", "name": "type", "wrapper": "types"})
    items: list[Item] = field(default_factory=list, metadata={"type": "Element", "name": "item", "wrapper": "items"})
    xs: list[object] = field(default_factory=list, metadata={"type": "Element", "name": "x", "wrapper": "xs"})
    primary: Optional[QName] = field(default=None, metadata={"type": "Element"})
'''
WRAP_URIS = ["urn:outer", "urn:inner", "urn:x", R.XS_NS]


def wrap_semantic(r):
    """semantic tree: node = {tag, decls [[prefix, uri]], qattrs [[name, value]], qtext value|None, text, kids, wrapper};
    a QName value is [prefix key | None, local] and means whatever the key is bound to at its element"""
    names = ["p", "q", "k", "t"]

    def declare(scope, prob):
        ds, sc = [], dict(scope)
        if r.random() < prob:
            for _ in range(r.choice([1, 1, 2])):
                k = r.choice(names)
                if k in [d[0] for d in ds]:
                    continue
                u = r.choice([x for x in WRAP_URIS if x != sc.get(k)])
                ds.append([k, u])
                sc[k] = u
        return ds, sc

    def value(sc, prefer, uris=None, local=None):
        keys = [k for k in sc if uris is None or sc[k] in uris]
        pk = [k for k in prefer if k in keys]
        if pk and r.random() < 0.8:
            keys = pk                                   # mostly the nearest (the wrapper's own) declarations
        if not keys:
            return None if uris else [None, local or "a"]
        return [r.choice(keys), local or r.choice(["a", "b", "c.d", "e-f"])]

    def node(tag, ds, **kw):
        return dict({"tag": tag, "decls": ds, "qattrs": [], "qtext": None, "text": None, "kids": [], "wrapper": False}, **kw)

    def leaf(tag, scope, prefer):
        ds, sc = declare(scope, 0.15)
        return node(tag, ds, qtext=value(sc, [d[0] for d in ds] or prefer))

    def wrapper(tag, scope, make, counts):
        ds, sc = declare(scope, 0.8)
        prefer = [d[0] for d in ds]
        return node(tag, ds, wrapper=True, kids=[make(sc, prefer) for _ in range(r.choice(counts))])

    def item(tag, scope, prefer, depth):
        ds, sc = declare(scope, 0.25)
        prefer = [d[0] for d in ds] or prefer
        qa = []
        if r.random() < 0.7:
            qa.append(["kind", value(sc, prefer)])
        en = value(sc, prefer, ("urn:outer", "urn:inner", "urn:x"), "a") if r.random() < 0.6 else None
        if en:
            qa.append(["en", en])
        kids = [leaf("ref", sc, prefer) for _ in range(r.choice([0, 1, 2]))]
        if r.random() < 0.5:
            kids.append(wrapper("names", sc, lambda s, p: leaf("name", s, p), [0, 1, 2, 3]))
        if depth < 2 and r.random() < 0.45:
            kids.append(wrapper("parts", sc, lambda s, p: item("part", s, p, depth + 1), [1, 2]))
        return node(tag, ds, qattrs=qa, kids=kids)

    def anyx(scope, prefer):
        ds, sc = declare(scope, 0.15)
        ty, val = r.choice([["int", "17"], ["boolean", "1"], ["string", "s 1"], ["int", "0"], ["decimal", "1.50"]])
        v = value(sc, [d[0] for d in ds] or prefer, (R.XS_NS,), ty)
        if v is None:
            ds.append(["t", R.XS_NS])
            v = ["t", ty]
        return node("x", ds, qattrs=[[R.XSI_TYPE_Q, v]], text=val)

    ds, sc = declare({}, 0.5)
    kids = []
    if r.random() < 0.5:
        kids.append(node("title", [], text="demo"))
    if r.random() < 0.8:
        kids.append(wrapper("types", sc, lambda s, p: leaf("type", s, p), [0, 1, 2, 3]))
    if r.random() < 0.8:
        kids.append(wrapper("items", sc, lambda s, p: item("item", s, p, 0), [1, 2, 3]))
    if r.random() < 0.6:
        kids.append(wrapper("xs", sc, anyx, [1, 2]))
    if r.random() < 0.7:
        kids.append(leaf("primary", sc, []))
    return node("box", ds, kids=kids)


def wrap_struct(sem, rename=False, on_items=False):
    """spell the semantic tree.  rename: every declared prefix gets a fresh name (declaration and uses together);
    on_items: the declarations of a wrapper element are written on each of its children instead (the wrapper element
    itself has no QName content, so the in-scope bindings of every value are the same)"""
    counter = [0]

    def go(n, env, pushed):
        own = [d[0] for d in n["decls"]]
        ds = [d for d in pushed if d[0] not in own] + n["decls"]
        push = []
        if on_items and n["wrapper"] and n["kids"]:
            push, ds = ds, []
        env = dict(env)
        out = []
        for k, u in ds:
            if rename:
                counter[0] += 1
                env[k] = "n%d" % counter[0]
            else:
                env[k] = k
            out.append([env[k], u])

        def sp(v):
            return v[1] if v[0] is None else env[v[0]] + ":" + v[1]
        return {"tag": n["tag"], "decls": out, "attrs": [[a, sp(v)] for a, v in n["qattrs"]],
                "text": sp(n["qtext"]) if n["qtext"] else n["text"], "kids": [go(k, env, push) for k in n["kids"]], "tail": None}
    return go(sem, {}, [])


def wrapped_qname_job(job):
    model = IP.Model(IP.full_source(WRAP_SRC), "Box")
    info = {"id": job["id"], "seed": job["seed"], "model": job["model"], "source": model.src,
            "universe": model.ex.universe_term(), "nodefault": model.nodefault_term(), "root": cN(model.ex.cid[model.root])}
    r = random.Random(job["seed"])
    cases = []
    for k in range(job.get("n", 12)):
        sem = wrap_semantic(r)
        d0 = R.print_doc(r, wrap_struct(sem)).encode()
        variants = [("renamed", R.print_doc(r, wrap_struct(sem, rename=True)).encode()),
                    ("on-items", R.print_doc(r, wrap_struct(sem, on_items=True)).encode())]
        cfg = (True, False, k % 3 == 2)                 # every third document with fail_on_converter_warnings
        for what, d1 in variants:
            cases.append(pair(model, info, cfg, "wrapper_decl", d0, d1, what=what))
            cases.append(pair(model, info, cfg, "wrapper_decl", d0, d1, what=what + " lxml", handler=LxmlEventHandler))
    info["conv"] = model.ex.rec.table_term()
    model.close()
    return dict(info, cases=cases)


def xinclude_job(job):
    """splitting the document with XInclude: child elements moved into files of their own and included by href (the
    same file included several times when the children are equal); both handlers, equal to the unsplit document"""
    import shutil
    import tempfile
    import impl_binding_lib as B
    from xsdata.formats.dataclass.parsers import XmlParser
    from xsdata.formats.dataclass.parsers.config import ParserConfig
    model = IP.Model(IP.full_source(R.ENC_SRC + '''
@dataclass
class W:
    b: Optional[str] = field(default=None, metadata={"type": "Attribute"})
    item: list[T] = field(default_factory=list, metadata={"type": "Element", "name": "T"})
'''), "W")
    r = random.Random(job["seed"])
    out = []
    tmpd = tempfile.mkdtemp(prefix="c09-xi-")
    try:
        for k in range(job.get("n", 8)):
            def sub():
                return '<T a="%s">%s</T>' % (r.choice(["1", "v", "same"]), "".join("<t>%s</t>" % r.choice(["x", "y z", "\u00e9"])
                                                                                     for _ in range(r.choice([1, 2, 3]))))

            def nz(p=0.5):
                return r.choice(["<!-- c -->", "<?pi d?>", "<!--x--><?p q?>", "<!---->"]) if r.random() < p else ""

            def annotate(i):
                """the same subtree with comments / processing instructions (no infoset content for the binding) before,
                inside and after the character data of its simple-content children and between the children"""
                def one(m):
                    t = m.group(1)
                    c = r.randrange(len(t) + 1)
                    return "<t>" + nz() + t[:c] + nz() + t[c:] + nz(0.3) + "</t>" + nz(0.3)
                head, _, rest = i.partition(">")
                return head + ">" + nz(0.3) + re.sub(r"<t>([^<]*)</t>", one, rest)
            pool = [sub() for _ in range(r.choice([1, 2, 3]))]
            items = [r.choice(pool) for _ in range(r.choice([2, 3, 4, 5]))]
            if k == 0:
                items = [pool[0], pool[0], '<T a="other"><t>o</t></T>', pool[0]]
            plain = '<W b="v">' + "".join(items) + "</W>"
            d = os.path.join(tmpd, "d%d" % k)
            os.mkdir(d)
            files = {}
            body = []
            noisy = k % 2 == 1            # every other document: comments / PIs in the included files and in the main file
            annotated = 0
            for i in items:
                if r.random() < 0.8 or k == 0:
                    if i not in files:
                        files[i] = "inc%d.xml" % len(files)
                        content = annotate(i) if noisy else i
                        annotated += content != i
                        with open(os.path.join(d, files[i]), "w", encoding="utf-8") as f:
                            f.write("<?xml version='1.0' encoding='UTF-8'?>" + (nz(0.3) if noisy else "") + content)
                    body.append('<xi:include href="%s"/>' % files[i])
                else:
                    body.append(annotate(i) if noisy else i)
                if noisy:
                    body.append(nz(0.3))
            doc = '<W xmlns:xi="http://www.w3.org/2001/XInclude" b="v">' + "".join(body) + "</W>"
            main = os.path.join(d, "main.xml")
            with open(main, "w", encoding="utf-8") as f:
                f.write(doc)
            ref = XmlParser(context=model.ctx).from_string(plain, model.root)
            for hname, h in (("native", XmlEventHandler), ("lxml", LxmlEventHandler)):
                for sname, fn in (("strpath", lambda: XmlParser(context=model.ctx, handler=h, config=ParserConfig(process_xinclude=True)).parse(main, model.root)),
                                  ("bytes+base_url", lambda: XmlParser(context=model.ctx, handler=h, config=ParserConfig(process_xinclude=True, base_url=main)).from_bytes(doc.encode(), model.root))):
                    try:
                        df = B.eq(ref, fn())
                        why = None if df is None else "differs at " + df
                    except Exception as e:  # noqa
                        why = type(e).__name__ + ": " + str(e)[:150]
                    out.append({"handler": hname, "source": sname, "why": why, "doc": doc[:400], "expected": repr(ref)[:200],
                                "repeated_href": len(files) < sum(1 for b in body if b.startswith("<xi")),
                                "annotated_included": annotated, "included": [open(os.path.join(d, f), encoding="utf-8").read()[:300]
                                                                              for f in files.values()] if why else None})
    finally:
        shutil.rmtree(tmpd, ignore_errors=True)
    model.close()
    return {"id": job["id"], "seed": job["seed"], "model": job["model"], "cases": [], "xinclude": out}


def run_job(job):
    if "list_ws" in job.get("model", {}):
        return list_ws_job(job)
    if "xinclude" in job.get("model", {}):
        return xinclude_job(job)
    if "wrapped_qname" in job.get("model", {}):
        return wrapped_qname_job(job)
    if job.get("oracle"):
        try:
            return oracle_job(job)
        except Exception as e:  # noqa
            return {"load_error": type(e).__name__ + ": " + str(e)[:300], "tb": traceback.format_exc()[-800:]}
    spec = job["model"]
    cases = []
    if "c08" in spec:
        e = R.C08_EXTRA[spec["c08"]]
        model = IP.Model(IP.full_source(e["src"]), e["root"])
        info = {"id": job["id"], "seed": job["seed"], "model": spec, "source": model.src,
                "universe": model.ex.universe_term(), "nodefault": model.nodefault_term(), "root": cN(model.ex.cid[model.root])}
        if spec["c08"] == "scoped_qname":
            # QName / xsi:type values under nested re-bindings of prefixes and of the default namespace; the second
            # document renames every declared prefix (declaration and uses together)
            r = random.Random(job["seed"])
            for _ in range(job.get("n", 12)):
                sem = R.scoped_semantic(r)
                d0 = R.print_doc(r, R.scoped_struct(sem, False)).encode()
                d1 = R.print_doc(r, R.scoped_struct(sem, True)).encode()
                cases.append(pair(model, info, (True, False, False), "rename_qname", d0, d1))
                cases.append(pair(model, info, (True, False, False), "rename_qname", d0, d1, what="lxml", handler=LxmlEventHandler))
            info["conv"] = model.ex.rec.table_term()
            model.close()
            return dict(info, cases=cases)
        for d0, d1 in F3_DOCS:
            cases.append(pair(model, info, (True, False, False), "f3", d0.encode(), d1.encode()))
        for d0, d1 in ATTR_DOCS:
            cases.append(pair(model, info, (True, False, False), "attrs", d0.encode(), d1.encode()))
        info["conv"] = model.ex.rec.table_term()
        model.close()
        return dict(info, cases=cases)
    r, model, obj, info, data, base = IP.prepare(job)
    if data is None:
        model.close()
        return dict(info, cases=cases)
    xml = data.decode()
    cfg = (True, False, False)
    for k in range(job.get("n", 2)):
        rr = random.Random(r.randrange(1 << 30))
        # whitespace between the children of element-only content
        d1 = X.rewrite(xml, ["ws_between_children"], rr, element_only=element_only)
        cases.append(pair(model, info, cfg, "ws", data, d1))
        # attribute order
        d2 = X.rewrite(xml, ["attr_order"], rr)
        cases.append(pair(model, info, cfg, "attrs", data, d2))
        # other prefixes (the original declarations stay, new prefixes are used for the names; xsi:type values re-spelled)
        d4 = X.rewrite(xml, ["prefixes", "qname_attrs"], rr)
        cases.append(pair(model, info, cfg, "rename", data, d4))
        # declarations: same lookups
        st = R.struct_of(LET.fromstring(data), {})
        redeclare(rr, st)
        d3 = R.print_doc(rr, st).encode()
        cases.append(pair(model, info, cfg, "redecl", data, d3))
    info["conv"] = model.ex.rec.table_term()
    model.close()
    return dict(info, cases=cases)


def main():
    req = json.load(sys.stdin)
    out = []
    for job in req["jobs"]:
        try:
            out.append(run_job(job))
        except Exception:  # noqa
            out.append({"id": job.get("id"), "seed": job.get("seed"), "model": job.get("model"),
                        "crashed": traceback.format_exc()[-3000:], "cases": []})
    json.dump({"dt_table": IP.dt_table_term(), "jobs": out}, sys.stdout)


if __name__ == "__main__":
    main()
