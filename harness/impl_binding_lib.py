"""eq(): structural comparison of two parsed objects (copied from impl_binding.py, which runs main() on import)"""
import dataclasses
import math


def eq(a, b, path=""):
    """None if equal, else the path of the first difference (NaN-tolerant, list/tuple strict)."""
    if isinstance(a, float) and isinstance(b, float):
        return None if (math.isnan(a) and math.isnan(b)) or a == b else path
    if type(a) is not type(b):
        return path + f"<type {type(a).__name__} vs {type(b).__name__}>"
    if dataclasses.is_dataclass(a) and not isinstance(a, type):
        for f in dataclasses.fields(a):
            d = eq(getattr(a, f.name), getattr(b, f.name), path + "." + f.name)
            if d is not None:
                return d
        return None
    if isinstance(a, (list, tuple)):
        if len(a) != len(b):
            return path + f"<len {len(a)} vs {len(b)}>"
        for i, (x, y) in enumerate(zip(a, b)):
            d = eq(x, y, path + f"[{i}]")
            if d is not None:
                return d
        return None
    if isinstance(a, dict):
        if a.keys() != b.keys():
            return path + "<keys>"
        for k in a:
            d = eq(a[k], b[k], path + f"[{k!r}]")
            if d is not None:
                return d
        return None
    return None if a == b else path
