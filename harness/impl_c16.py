"""C16 implementation runner: drives xsdata's real DTD pipeline on a batch of programs.

stdin : {"programs": [{"dtd": text, "root": element name, "compound": bool, "docs": [xml text, ...],
                       "words": [[child name, ...], ...]}]}
stdout: [ per program
  {"lxml":   raw lxml view of the DTD (what DtdParser reads)            -- input of Model/Dtd.v
   "xs_dtd": xsdata's Dtd model after DtdParser.parse                   -- compared with the model
   "mapped": the classes DtdMapper.map produced (attrs, enums, ...)     -- compared with the model
   "gen":    {"ok": bool, "err": str}   code generation + exec of the generated module
   "meta":   binding metadata of every generated class (real XmlContext.build)
   "docs":   [{"ok": serialized xml} | {"err": exception type, "msg": text}]
   "words":  [bool]  does the real parser accept <root> with exactly these children (minimal content)?
  }]

Generation goes through the shared runner harness/codegen_run.py: the REAL
ResourceTransformer.process on a .dtd URI (DtdParser, DtdMapper, ClassContainer.process,
CodeWriter, DataclassGenerator.render with the stand-in templates of render_standin.py,
validate_imports), then a real import of the generated package, XmlContext / XmlParser /
XmlSerializer on the generated classes.  DtdParser.parse / DtdMapper.map are additionally called
directly to export their outputs for the correspondence with Model/Dtd.v.
"""
import io
import itertools
import json
import sys
import types

from lxml import etree

import os

sys.path.insert(0, os.path.dirname(os.path.abspath(__file__)))
import codegen_run as CR  # noqa: E402

from xsdata.codegen.mappers.dtd import DtdMapper  # noqa: E402
from xsdata.codegen.parsers.dtd import DtdParser  # noqa: E402
from xsdata.formats.dataclass.context import XmlContext  # noqa: E402
from xsdata.formats.dataclass.parsers import XmlParser  # noqa: E402
from xsdata.formats.dataclass.parsers.config import ParserConfig  # noqa: E402
from xsdata.formats.dataclass.serializers import XmlSerializer  # noqa: E402

_ctr = itertools.count()
MAXSIZE = sys.maxsize


# ------------------------------------------------------------------ exporters
def content_tree(c):
    if c is None:
        return None
    return {"name": c.name, "type": c.type if isinstance(c.type, str) else c.type.name,
            "occur": c.occur if isinstance(c.occur, str) else c.occur.name,
            "left": content_tree(c.left), "right": content_tree(c.right)}


def lxml_view(dtd_text):
    dtd = etree.DTD(io.BytesIO(dtd_text.encode()))
    out = []
    for el in dtd.iterelements():
        out.append({"name": el.name, "prefix": el.prefix, "type": el.type, "content": content_tree(el.content),
                    "attributes": [{"prefix": a.prefix, "name": a.name, "type": a.type, "default": a.default,
                                    "default_value": a.default_value, "values": list(a.values())}
                                   for a in el.iterattributes()]})
    return out


def xs_view(dtd):
    out = []
    for el in dtd.elements:
        out.append({"name": el.name, "prefix": el.prefix, "type": el.type.name, "content": content_tree(el.content),
                    "qname": el.qname,
                    "attributes": [{"prefix": a.prefix, "name": a.name, "type": a.type.name, "default": a.default.name,
                                    "default_value": a.default_value, "values": list(a.values),
                                    "data_type": str(a.data_type)}
                                   for a in el.attributes],
                    "ns_map": [[k, v] for k, v in el.ns_map.items()]})
    return out


def occ(v):
    if v is None:
        return None
    return "inf" if v >= MAXSIZE else v


def attr_view(a, canon):
    r = a.restrictions
    ch = r.choice
    if ch is not None:
        ch = canon.setdefault(ch, len(canon))
    return {"name": a.name, "tag": a.tag, "namespace": a.namespace, "default": a.default, "fixed": bool(a.fixed),
            "index": a.index, "min": occ(r.min_occurs), "max": occ(r.max_occurs), "choice": ch,
            "sequence": r.sequence, "path": [list(p) for p in r.path],
            "types": [{"qname": t.qname, "native": bool(t.native), "forward": bool(t.forward)} for t in a.types],
            "choices": [attr_view(c, {}) for c in a.choices]}


def class_view(c):
    canon = {}
    return {"qname": c.qname, "name": c.name, "tag": c.tag, "mixed": bool(c.mixed), "location": c.location,
            "ns_map": [[k, v] for k, v in c.ns_map.items()],
            "extensions": [{"qname": e.type.qname, "native": bool(e.type.native), "tag": e.tag} for e in c.extensions],
            "attrs": [attr_view(a, canon) for a in c.attrs],
            "inner": [class_view(i) for i in c.inner]}


def kind_of(v):
    for k in ("attribute", "attributes", "element", "elements", "text", "wildcard"):
        if getattr(v, "is_" + k):
            return k
    return "?"


def var_view(v):
    d = {"name": v.name, "qname": v.qname, "index": v.index, "kind": kind_of(v), "list": bool(v.list_element),
         "tokens": bool(v.tokens), "required": bool(v.required), "init": bool(v.init), "mixed": bool(v.mixed),
         "has_default": not (v.default is None), "namespaces": sorted(v.namespaces or ()),
         "sequence": v.sequence}
    dv = v.default() if callable(v.default) else v.default
    if dv is not None and hasattr(dv, "value") and not isinstance(dv, (str, list, tuple)):
        dv = dv.value  # enum member
    if isinstance(dv, (list, tuple)):
        dv = " ".join(str(x.value if hasattr(x, "value") else x) for x in dv) if dv else None
    d["default"] = None if dv is None else str(dv)
    enum_vals = None
    for t in v.types:
        if isinstance(t, type) and hasattr(t, "__members__"):
            enum_vals = [str(m.value) for m in t]
    d["enum"] = enum_vals
    d["choices"] = [{"qname": c.qname, "list": bool(c.list_element), "index": c.index, "wild": bool(c.is_wildcard)}
                    for c in v.elements.values()] + [{"qname": None, "list": bool(c.list_element), "index": c.index,
                                                     "wild": True} for c in v.wildcards]
    return d


def field_has_default(clazz, name):
    import dataclasses
    for fl in dataclasses.fields(clazz):
        if fl.name == name:
            return not (fl.default is dataclasses.MISSING and fl.default_factory is dataclasses.MISSING) or not fl.init
    return True


def meta_view(ctx, clazz):
    m = ctx.build(clazz)
    evars = []
    for v in m.get_element_vars():
        d = var_view(v)
        d["py_required"] = not field_has_default(clazz, v.name)
        evars.append(d)
    avars = []
    for v in m.get_attribute_vars():
        d = var_view(v)
        d["py_required"] = not field_has_default(clazz, v.name)
        avars.append(d)
    return {"qname": m.qname, "class": clazz.__name__, "target_qname": m.target_qname, "mixed_content": bool(m.mixed_content),
            "elements": evars, "attributes": avars}


# ------------------------------------------------------------------ one program
STRICT = dict(fail_on_unknown_properties=True, fail_on_unknown_attributes=True, fail_on_converter_warnings=True)


def run_program(p):
    import dataclasses
    res = {}
    res["lxml"] = lxml_view(p["dtd"])
    dtd = DtdParser.parse(p["dtd"].encode(), "file:///c16/t.dtd")
    res["xs_dtd"] = xs_view(dtd)
    raw = list(DtdMapper.map(dtd))
    res["mapped"] = [class_view(c) for c in raw]
    res["docs"] = []
    res["meta"] = []
    options = {"package": "c16gen%d" % next(_ctr), "compound_fields": bool(p.get("compound"))}
    try:
        with CR.CodegenRun({"t.dtd": p["dtd"]}, options, timeout=60) as run:
            r = run.result
            if r["status"] != "ok":
                e = r.get("error") or {}
                res["gen"] = {"ok": False, "err": e.get("type", r["status"]), "msg": str(e.get("message"))[:500],
                              "tb": str(e.get("traceback"))[-1500:], "stage": r.get("stage")}
                return res
            res["processed"] = [class_view(c) for c in (run.classes or [])]
            run.import_modules()
            classes = [c for _m, _q, c in run.python_classes() if dataclasses.is_dataclass(c)]
            ctx = XmlContext()
            metas = [(c, meta_view(ctx, c)) for c in classes]
            res["meta"] = [m for _c, m in metas]
            root_local = p["root"].split(":")[-1]
            root_cls = None
            for c, m in metas:
                if "." not in c.__qualname__ and (m["qname"] == root_local or m["qname"].endswith("}" + root_local)):
                    root_cls = c
                    break
            if root_cls is None:
                raise RuntimeError("no class generated for the root element " + p["root"])
            res["gen"] = {"ok": True, "root_class": root_cls.__name__, "files": r.get("files")}
            pcfg = ParserConfig(**STRICT)
            ns_map = {k: v for k, v in p.get("ns_map") or []} or None
            for doc in p.get("docs", []):
                res["docs"].append(roundtrip(ctx, pcfg, root_cls, doc, ns_map))
    except Exception as e:  # generation / import failure is an outcome, not a harness error
        import traceback
        res["gen"] = {"ok": False, "err": type(e).__name__, "msg": str(e)[:500], "tb": traceback.format_exc()[-1500:]}
        res["docs"] = []
    return res


def roundtrip(ctx, pcfg, root_cls, doc, ns_map=None):
    try:
        obj = XmlParser(context=ctx, config=pcfg).from_string(doc, root_cls)
    except Exception as e:
        return {"err": type(e).__name__, "msg": str(e)[:300], "stage": "parse"}
    try:
        return {"ok": XmlSerializer(context=ctx).render(obj, ns_map=dict(ns_map) if ns_map else None)}
    except Exception as e:
        return {"err": type(e).__name__, "msg": str(e)[:300], "stage": "serialize"}


def main():
    payload = json.load(sys.stdin)
    import logging
    logging.disable(logging.CRITICAL)
    out = [run_program(p) for p in payload["programs"]]
    json.dump(out, sys.stdout)


if __name__ == "__main__":
    main()
