"""C16 implementation runner: drives xsdata's real DTD pipeline on a batch of programs.

stdin : {"programs": [{"dtd": text, "root": element name, "compound": bool, "docs": [xml text, ...],
                       "words": [[child name, ...], ...]}]}
stdout: [ per program
  {"lxml":   raw lxml view of the DTD (what DtdParser reads)            -- input of Model/Dtd.v
   "xs_dtd": xsdata's Dtd model after DtdParser.parse                   -- compared with the model
   "mapped": the classes DtdMapper.map produced (attrs, enums, ...)     -- compared with the model
   "gen":    {"ok": bool, "err": str}   code generation + exec of the generated module
   "meta":   binding metadata of every generated class (real XmlContext.build)
   "docs":   [{"ok": serialized xml} | {"err": exception type, "msg": text}]
   "words":  [bool]  does the real parser accept <root> with exactly these children (minimal content)?
  }]

Pipeline: DtdParser.parse -> DtdMapper.map -> ClassContainer.process -> DependenciesResolver
(ordering) -> real Filters (class_name, field_name, field_type, field_definition, constant_name,
field_default_value, default_imports ...) assembled by a ~40 line stand-in for class.jinja2 /
enum.jinja2 / module.jinja2 (Jinja cannot run here) -> exec -> XmlContext/XmlParser/XmlSerializer.
"""
import io
import itertools
import json
import sys
import types

from lxml import etree

from xsdata.codegen.container import ClassContainer
from xsdata.codegen.mappers.dtd import DtdMapper
from xsdata.codegen.parsers.dtd import DtdParser
from xsdata.codegen.resolver import DependenciesResolver
from xsdata.formats.dataclass.context import XmlContext
from xsdata.formats.dataclass.filters import Filters
from xsdata.formats.dataclass.parsers import XmlParser
from xsdata.formats.dataclass.parsers.config import ParserConfig
from xsdata.formats.dataclass.serializers import XmlSerializer
from xsdata.models.config import GeneratorConfig

_ctr = itertools.count()
MAXSIZE = sys.maxsize


# ------------------------------------------------------------------ stand-in renderer
def indent(text, n):
    pad = " " * n
    return "\n".join((pad + ln) if ln.strip() else ln for ln in text.split("\n"))


def render_class(f, obj, level, module_namespace, parent_namespace=None):
    """class.jinja2 / enum.jinja2 without docstrings, statement for statement."""
    if obj.is_enumeration:
        lines = [f"class {f.class_name(obj.name)}(Enum):"]
        for a in obj.attrs:
            lines.append(f"    {f.constant_name(a.name, obj.name)} = {f.field_default_value(a, obj.ns_map)}")
        return "\n".join(lines)
    parent_namespace = obj.namespace if obj.namespace is not None else parent_namespace
    class_name = f.class_name(obj.name)
    global_type = level == 0 and not obj.local_type
    local_name = obj.meta_name or obj.name
    local_name = None if class_name == local_name or not global_type else local_name
    bases = ", ".join(f.class_bases(obj, class_name))
    target_namespace = obj.target_namespace if global_type and module_namespace != obj.target_namespace else None
    out = list(f.class_annotations(obj, class_name))
    out.append(f"class {class_name}" + (f"({bases})" if bases else "") + ":")
    body = []
    if local_name or obj.is_nillable or obj.namespace is not None or target_namespace or (obj.local_type and level == 0):
        body.append("class Meta:")
        if obj.local_type:
            body.append("    global_type = False")
        if local_name:
            body.append(f"    name = {json.dumps(local_name)}")
        if obj.is_nillable:
            body.append("    nillable = True")
        if obj.namespace is not None:
            body.append(f"    namespace = {json.dumps(obj.namespace)}")
        if target_namespace and target_namespace != obj.namespace:
            body.append(f"    target_namespace = {json.dumps(target_namespace)}")
    elif not obj.attrs:
        body.append("pass")
    for a in obj.attrs:
        body.append(f"{f.field_name(a.name, obj.name)}: {f.field_type(obj, a)} = "
                    f"{f.field_definition(obj, a, parent_namespace)}")
    for inner in obj.inner:
        body.append(render_class(f, inner, level + 1, module_namespace, parent_namespace))
    out.append(indent("\n".join(body), 4))
    return "\n".join(out)


def render_module(f, classes):
    """generator.render_module + module.jinja2 for a single-module package."""
    packages = {obj.qname: obj.target_module for obj in classes}
    resolver = DependenciesResolver(registry=packages)
    nss = {x.target_namespace for x in classes}
    module_namespace = classes[0].target_namespace if len(nss) == 1 else None
    resolver.process(classes)
    ordered = resolver.sorted_classes()
    output = "\n\n".join(render_class(f, c, 0, module_namespace) for c in ordered)
    src = f.default_imports(output) + "\n"
    if module_namespace:
        src += f"__NAMESPACE__ = {json.dumps(module_namespace)}\n"
    return src + "\n" + output + "\n"


# ------------------------------------------------------------------ exporters
def content_tree(c):
    if c is None:
        return None
    return {"name": c.name, "type": c.type if isinstance(c.type, str) else c.type.name,
            "occur": c.occur if isinstance(c.occur, str) else c.occur.name,
            "left": content_tree(c.left), "right": content_tree(c.right)}


def lxml_view(dtd_text):
    dtd = etree.DTD(io.BytesIO(dtd_text.encode()))
    out = []
    for el in dtd.iterelements():
        out.append({"name": el.name, "prefix": el.prefix, "type": el.type, "content": content_tree(el.content),
                    "attributes": [{"prefix": a.prefix, "name": a.name, "type": a.type, "default": a.default,
                                    "default_value": a.default_value, "values": list(a.values())}
                                   for a in el.iterattributes()]})
    return out


def xs_view(dtd):
    out = []
    for el in dtd.elements:
        out.append({"name": el.name, "prefix": el.prefix, "type": el.type.name, "content": content_tree(el.content),
                    "qname": el.qname,
                    "attributes": [{"prefix": a.prefix, "name": a.name, "type": a.type.name, "default": a.default.name,
                                    "default_value": a.default_value, "values": list(a.values),
                                    "data_type": str(a.data_type)}
                                   for a in el.attributes],
                    "ns_map": [[k, v] for k, v in el.ns_map.items()]})
    return out


def occ(v):
    if v is None:
        return None
    return "inf" if v >= MAXSIZE else v


def attr_view(a, canon):
    r = a.restrictions
    ch = r.choice
    if ch is not None:
        ch = canon.setdefault(ch, len(canon))
    return {"name": a.name, "tag": a.tag, "namespace": a.namespace, "default": a.default, "fixed": bool(a.fixed),
            "index": a.index, "min": occ(r.min_occurs), "max": occ(r.max_occurs), "choice": ch,
            "sequence": r.sequence, "path": [list(p) for p in r.path],
            "types": [{"qname": t.qname, "native": bool(t.native), "forward": bool(t.forward)} for t in a.types],
            "choices": [attr_view(c, {}) for c in a.choices]}


def class_view(c):
    canon = {}
    return {"qname": c.qname, "name": c.name, "tag": c.tag, "mixed": bool(c.mixed), "location": c.location,
            "ns_map": [[k, v] for k, v in c.ns_map.items()],
            "extensions": [{"qname": e.type.qname, "native": bool(e.type.native), "tag": e.tag} for e in c.extensions],
            "attrs": [attr_view(a, canon) for a in c.attrs],
            "inner": [class_view(i) for i in c.inner]}


def kind_of(v):
    for k in ("attribute", "attributes", "element", "elements", "text", "wildcard"):
        if getattr(v, "is_" + k):
            return k
    return "?"


def var_view(v):
    d = {"name": v.name, "qname": v.qname, "index": v.index, "kind": kind_of(v), "list": bool(v.list_element),
         "tokens": bool(v.tokens), "required": bool(v.required), "init": bool(v.init), "mixed": bool(v.mixed),
         "has_default": not (v.default is None), "namespaces": sorted(v.namespaces or ()),
         "sequence": v.sequence}
    dv = v.default() if callable(v.default) else v.default
    if dv is not None and hasattr(dv, "value") and not isinstance(dv, (str, list, tuple)):
        dv = dv.value  # enum member
    if isinstance(dv, (list, tuple)):
        dv = " ".join(str(x.value if hasattr(x, "value") else x) for x in dv) if dv else None
    d["default"] = None if dv is None else str(dv)
    enum_vals = None
    for t in v.types:
        if isinstance(t, type) and hasattr(t, "__members__"):
            enum_vals = [str(m.value) for m in t]
    d["enum"] = enum_vals
    d["choices"] = [{"qname": c.qname, "list": bool(c.list_element), "index": c.index, "wild": bool(c.is_wildcard)}
                    for c in v.elements.values()] + [{"qname": None, "list": bool(c.list_element), "index": c.index,
                                                     "wild": True} for c in v.wildcards]
    return d


def field_has_default(clazz, name):
    import dataclasses
    for fl in dataclasses.fields(clazz):
        if fl.name == name:
            return not (fl.default is dataclasses.MISSING and fl.default_factory is dataclasses.MISSING) or not fl.init
    return True


def meta_view(ctx, clazz):
    m = ctx.build(clazz)
    evars = []
    for v in m.get_element_vars():
        d = var_view(v)
        d["py_required"] = not field_has_default(clazz, v.name)
        evars.append(d)
    avars = []
    for v in m.get_attribute_vars():
        d = var_view(v)
        d["py_required"] = not field_has_default(clazz, v.name)
        avars.append(d)
    return {"qname": m.qname, "class": clazz.__name__, "target_qname": m.target_qname, "mixed_content": bool(m.mixed_content),
            "elements": evars, "attributes": avars}


# ------------------------------------------------------------------ one program
STRICT = dict(fail_on_unknown_properties=True, fail_on_unknown_attributes=True, fail_on_converter_warnings=True)


def all_classes(mod):
    import dataclasses
    out = []

    def rec(c):
        if dataclasses.is_dataclass(c):
            out.append(c)
        for v in vars(c).values():
            if isinstance(v, type) and v.__module__ == c.__module__ and v.__qualname__.startswith(c.__qualname__ + "."):
                rec(v)

    for v in vars(mod).values():
        if isinstance(v, type) and v.__module__ == mod.__name__ and "." not in v.__qualname__:
            rec(v)
    return out


def run_program(p):
    res = {}
    res["lxml"] = lxml_view(p["dtd"])
    dtd = DtdParser.parse(p["dtd"].encode(), "file:///c16/t.dtd")
    res["xs_dtd"] = xs_view(dtd)
    raw = list(DtdMapper.map(dtd))
    res["mapped"] = [class_view(c) for c in raw]
    res["docs"] = []
    res["meta"] = []
    try:
        cfg = GeneratorConfig()
        cfg.output.package = "gen"
        cfg.output.compound_fields.enabled = bool(p.get("compound"))
        cont = ClassContainer(config=cfg)
        cont.extend(raw)
        cont.process()
        classes = list(cont)
        res["processed"] = [class_view(c) for c in classes]
        f = Filters(cfg)
        src = render_module(f, classes)
        res["src"] = src
        name = f"c16gen_{next(_ctr)}"
        mod = types.ModuleType(name)
        sys.modules[name] = mod
        exec(compile(src, name, "exec"), mod.__dict__)
        ctx = XmlContext()
        for c in all_classes(mod):
            res["meta"].append(meta_view(ctx, c))
        root_cls = None
        root_local = p["root"].split(":")[-1]
        for c in classes:
            if c.name == root_local or c.qname == root_local or c.qname.endswith("}" + root_local):
                root_cls = getattr(mod, f.class_name(c.name))
                break
        if root_cls is None:
            raise RuntimeError("no class generated for the root element " + p["root"])
        res["gen"] = {"ok": True, "root_class": root_cls.__name__}
    except Exception as e:  # generation / import failure is an outcome, not a harness error
        import traceback
        res["gen"] = {"ok": False, "err": type(e).__name__, "msg": str(e)[:500], "tb": traceback.format_exc()[-1500:]}
        return res
    pcfg = ParserConfig(**STRICT)
    ns_map = {k: v for k, v in p.get("ns_map") or []} or None
    for doc in p.get("docs", []):
        res["docs"].append(roundtrip(ctx, pcfg, root_cls, doc, ns_map))
    return res


def roundtrip(ctx, pcfg, root_cls, doc, ns_map=None):
    try:
        obj = XmlParser(context=ctx, config=pcfg).from_string(doc, root_cls)
    except Exception as e:
        return {"err": type(e).__name__, "msg": str(e)[:300], "stage": "parse"}
    try:
        return {"ok": XmlSerializer(context=ctx).render(obj, ns_map=dict(ns_map) if ns_map else None)}
    except Exception as e:
        return {"err": type(e).__name__, "msg": str(e)[:300], "stage": "serialize"}


def main():
    payload = json.load(sys.stdin)
    import logging
    logging.disable(logging.CRITICAL)
    out = [run_program(p) for p in payload["programs"]]
    json.dump(out, sys.stdout)


if __name__ == "__main__":
    main()
