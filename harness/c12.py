"""C12 — code generation is reproducible.

Deciding artefacts
  * theorems of coq/Properties/C12.v over Model/Graph.v (permutation / labelling invariance of
    the order-sensitive cores; verified SCC checker),
  * tie: regenerated table (Gen/GraphTables.v) + differential correspondence of every
    modelled core against the real function under several PYTHONHASHSEED values (the set
    iteration orders the implementation really used are exported and fed to the model),
  * search: the real pipeline on a corpus of schema sets x configurations, in subprocesses
    under 4 (quick) / 64 (thorough) hash seeds, twice each, and once through
    GeneratorConfig.write -> read; everything written is compared byte for byte.
Not executable here: the click command line (no click) — see manifest level_note.
"""
import concurrent.futures as cf
import json
import os
import re
import time

from common import Check, REPO, ROOT, TRUSTED_COMMON, coq_bad_indices, run_impl, standard_proof_step
from coqterm import clist, copt, cstr

IMPORTS = "From XV Require Import Base.Str Base.Eqb Model.Graph Model.GraphCorr."
ERR = {"KeyError": 0, "IndexError": 1, "CircularDependencyError": 2}


# ------------------------------------------------------------------ term printers
def c_lstr(xs):
    return clist(xs, cstr, "str")


def c_dict(d):
    return clist(d, lambda kv: f"({cstr(kv[0])}, {c_lstr(kv[1])})", "(str * list str)")


def c_llstr(xss):
    return clist(xss, c_lstr, "(list str)")


def c_on(v):
    return copt(v, lambda n: f"{n}%N")


def c_lon(vs):
    return clist(vs, c_on, "(option N)")


def c_sum(ok_term, err):
    return f"(inl {ok_term})" if err is None else f"(inr {ERR[err]}%nat)"


# ------------------------------------------------------------------ generators (cores)
ALPHA = "abcdefghijklmnopqrstuvwxyzABCDEFGHIJKLMNOPQRSTUVWXYZ_0123456789éλж"


def g_name(r, used):
    while True:
        n = r.choice("ABCDEFGHKMNPQRSTxyz") + "".join(r.choice(ALPHA) for _ in range(r.randint(0, 7)))
        if n not in used:
            used.add(n)
            return n


def g_qnames(r, n):
    used = set()
    nss = ["urn:" + g_name(r, set()).lower() for _ in range(r.randint(1, 3))]
    out = []
    for _ in range(n):
        nm = g_name(r, used)
        if r.random() < 0.15 and out:  # same local name in another namespace
            nm = out[-1].split("}")[1]
        q = "{%s}%s" % (r.choice(nss), nm)
        if q not in out:
            out.append(q)
    return out


def g_graph(r):
    n = r.choice([1, 2, 3, 4, 5, 6, 8, 10, 12])
    vs = g_qnames(r, n)
    dens = r.choice([0.05, 0.15, 0.3, 0.6])
    edges = []
    for v in vs:
        ws = [w for w in vs if r.random() < dens]
        if r.random() < 0.2:
            ws.append(v)
        if ws and r.random() < 0.2:
            ws.append(r.choice(ws))
        r.shuffle(ws)
        edges.append([v, ws])
    if r.random() < 0.04 and edges:
        edges[r.randrange(len(edges))][1].append("{urn:missing}Zz")
    return edges


def g_topo(r):
    n = r.choice([0, 1, 2, 3, 4, 6, 8, 10])
    vs = g_qnames(r, n)
    kind = r.random()
    data = []
    for i, v in enumerate(vs):
        pool = vs[:i] if kind < 0.7 else vs  # mostly acyclic
        deps = [w for w in pool if r.random() < 0.3]
        if r.random() < 0.15:
            deps.append(v)  # self dependency (discarded)
        if r.random() < 0.2:
            deps.append("{urn:extra}" + r.choice("XYZ"))  # only occurs as a dependency
        data.append([v, deps])
    r.shuffle(data)
    return data


def g_classes(r):
    n = r.choice([1, 2, 3, 4, 5, 6, 8, 10])
    vs = g_qnames(r, n)
    specs = []
    for i, v in enumerate(vs):
        deps = []
        for j, w in enumerate(vs):
            if r.random() < r.choice([0.1, 0.3]):
                if j >= i:  # back/self edge: the analyser would have flagged it
                    kind = "circular" if r.random() < 0.93 else "plain"
                else:
                    kind = r.choice(["plain", "plain", "plain", "forward"])
                deps.append([w, kind])
        if r.random() < 0.3:
            deps.append(["{http://www.w3.org/2001/XMLSchema}string", "native"])
        specs.append({"qname": v, "deps": deps})
    return specs


def g_resolver(r):
    """One module importing many classes, several of them with the SAME local name from different namespaces."""
    used = set()
    nss = ["urn:" + g_name(r, set()).lower() for _ in range(r.randint(3, 6))]
    nss = list(dict.fromkeys(nss))
    locs = [g_name(r, used) for _ in range(r.randint(1, 4))]
    home = nss[0]
    others = ["{%s}%s" % (ns, ln) for ns in nss[1:] for ln in locs if r.random() < 0.85]
    own = ["{%s}%s" % (home, g_name(r, used)) for _ in range(r.randint(1, 3))]
    if r.random() < 0.5 and locs:
        own.append("{%s}%s" % (home, locs[0]))  # the module defines the shared name itself: protected slug
    specs = []
    for i, q in enumerate(own):
        deps = [[w, "plain"] for w in others if r.random() < 0.7] + [[w, "plain"] for w in own[:i] if r.random() < 0.4]
        r.shuffle(deps)
        specs.append({"qname": q, "deps": deps})
    for q in others:
        specs.append({"qname": q, "deps": []})
    r.shuffle(specs)
    return {"op": "resolver", "classes": specs, "module": own}


TYPES = ["str", "bool", "Decimal", "float", "XmlDuration", "XmlDateTime", "XmlTime", "XmlDate", "XmlPeriod", "bytes", "QName",
         "int", "object"]


def g_types(r):
    k = r.choice([0, 1, 2, 2, 3, 3, 4, 6])
    ts = [r.choice(TYPES) for _ in range(k)]
    if r.random() < 0.25:
        ts += ["bytes", "object"]
        r.shuffle(ts)
    return ts


def g_reset(r):
    pool = [r.randint(10 ** 14, 2 * 10 ** 14) for _ in range(r.randint(1, 4))] + [1, 2, 7]
    attrs = [r.choice([None, None, 0] + pool + pool) for _ in range(r.randint(0, 9))]
    base = None if r.random() < 0.4 else [r.choice([None, 0, 1, 2, 3, 9]) for _ in range(r.randint(0, 4))]
    return base, attrs


def g_imports(r):
    qs = g_qnames(r, r.randint(0, 9))
    return [[q, "gen." + q.split("}")[0][5:]] for q in qs]


# ------------------------------------------------------------------ schema sets (pipeline)
XS = "http://www.w3.org/2001/XMLSchema"
BUILTINS = ["string", "int", "decimal", "boolean", "date", "dateTime", "hexBinary", "base64Binary", "anySimpleType", "QName",
            "float", "duration", "anyURI", "token", "gYear", "time", "integer", "NMTOKENS"]


def g_schema_set(r):
    """Several namespaces / files with imports in both directions, cross-module circular
    references, name clashes, enumerations, unions, substitution groups, groups, nested
    sequences and choices."""
    nns = r.randint(2, 4)
    used = set()
    nss = []
    for i in range(nns):
        nss.append({"uri": "urn:%s:%s" % (g_name(r, used).lower(), r.choice(["core", "ext", "v1", "x-y"])), "pfx": "n%d" % i,
                    "file": "%s/%s.xsd" % (r.choice(["a", "b", "common"]), g_name(r, used).lower()),
                    "types": [], "enums": [], "elems": [], "groups": []})
    shared = g_name(r, used)  # a local name used in every namespace
    for ns in nss:
        for k in range(r.randint(2, 5)):
            ns["types"].append(shared if k == 0 else g_name(r, used) + r.choice(["", "Type", "_t", "Class"]))
        for k in range(r.randint(1, 2)):
            ns["enums"].append(g_name(r, used) + "Enum")
        ns["groups"].append(g_name(r, used) + "Grp")

    # half of the sets are layered (namespace i only refers to namespaces <= i): no circular imports between modules,
    # so that the filenames / namespaces styles reach import aliasing instead of "Circular Dependencies Found"
    layered = r.random() < 0.5

    def ref(ns_from, kind):
        pool = nss[:nss.index(ns_from) + 1] if layered else nss
        ns_to = r.choice(pool)
        if layered and ns_to is ns_from and kind == "types":
            # inside a layered namespace refer backwards only (no cycles at all)
            k = ref.cursor.get(id(ns_from), 0)
            cands = ns_from["types"][:k] or None
            if cands is None:
                return "xs:string"
            return ns_to["pfx"] + ":" + r.choice(cands)
        return ns_to["pfx"] + ":" + r.choice(ns_to[kind])

    ref.cursor = {}

    files = {}
    for ns in nss:
        others = [o for o in nss if o is not ns and (not layered or nss.index(o) < nss.index(ns))]
        out = ['<xs:schema xmlns:xs="%s" targetNamespace="%s" elementFormDefault="qualified" %s>' % (
            XS, ns["uri"], " ".join('xmlns:%s="%s"' % (o["pfx"], o["uri"]) for o in nss))]
        for o in others:
            rel = os.path.relpath(o["file"], os.path.dirname(ns["file"]))
            out.append('<xs:import namespace="%s" schemaLocation="%s"/>' % (o["uri"], rel))
        for e in ns["enums"]:
            vals = r.sample(["A", "a", "1a", "None", "b-c", "b_c", "x y", "", "true", "ÅÄ", "class"], r.randint(2, 5))
            out.append('<xs:simpleType name="%s"><xs:restriction base="xs:string">%s</xs:restriction></xs:simpleType>' % (
                e, "".join('<xs:enumeration value="%s"/>' % v for v in vals)))
        un = g_name(r, used) + "Union"
        members = " ".join("xs:" + b for b in r.sample(BUILTINS, r.randint(2, 6)))
        out.append('<xs:simpleType name="%s"><xs:union memberTypes="%s %s"/></xs:simpleType>' % (un, members, ref(ns, "enums")))
        g = ns["groups"][0]
        out.append('<xs:group name="%s"><xs:sequence maxOccurs="unbounded"><xs:element name="gx" type="xs:string"/>'
                   '<xs:element name="gy" type="%s"/></xs:sequence></xs:group>' % (g, ref(ns, "types")))
        head = g_name(r, used) + "Head"
        out.append('<xs:element name="%s" type="%s:%s" abstract="true"/>' % (head, ns["pfx"], ns["types"][0]))
        for ti, t in enumerate(ns["types"]):
            ref.cursor[id(ns)] = ti
            body = []
            for k in range(r.randint(1, 4)):
                kind = r.random()
                nm = r.choice(["value", "type", "a", "A", "item", "class", g_name(r, set())])
                occ = r.choice(["", ' minOccurs="0"', ' maxOccurs="unbounded"', ' minOccurs="0" maxOccurs="3"'])
                if kind < 0.45:
                    body.append('<xs:element name="%s" type="%s"%s/>' % (nm, ref(ns, "types"), occ))
                elif kind < 0.6:
                    body.append('<xs:element name="%s" type="%s"%s/>' % (nm, ref(ns, "enums"), occ))
                elif kind < 0.75:
                    body.append('<xs:element name="%s" type="xs:%s"%s/>' % (nm, r.choice(BUILTINS), occ))
                elif kind < 0.85:
                    body.append('<xs:element name="%s" type="%s:%s"%s/>' % (nm, ns["pfx"], un, occ))
                elif kind < 0.93:
                    body.append('<xs:element ref="%s:%s"%s/>' % (ns["pfx"], head, occ))
                else:
                    body.append('<xs:group ref="%s"/>' % ref(ns, "groups"))
            comp = r.choice(["sequence", "sequence", "choice"])
            cocc = r.choice(["", "", ' maxOccurs="unbounded"'])
            inner = "<xs:%s%s>%s</xs:%s>" % (comp, cocc, "".join(body), comp)
            if r.random() < 0.3:
                inner = '<xs:sequence>%s<xs:sequence maxOccurs="unbounded"><xs:element name="s1" type="xs:int"/>' \
                        '<xs:element name="s2" type="xs:int"/></xs:sequence></xs:sequence>' % inner
            attrs = ""
            if r.random() < 0.5:
                attrs = '<xs:attribute name="%s" type="%s"/>' % (r.choice(["id", "type", "value", "a"]), ref(ns, "enums"))
            if r.random() < 0.25 and t != ns["types"][0]:
                base = ns["pfx"] + ":" + ns["types"][0] if r.random() < 0.5 else ref(ns, "types")
                out.append('<xs:complexType name="%s"><xs:complexContent><xs:extension base="%s">%s%s</xs:extension>'
                           '</xs:complexContent></xs:complexType>' % (t, base, inner, attrs))
            else:
                out.append('<xs:complexType name="%s">%s%s</xs:complexType>' % (t, inner, attrs))
            if r.random() < 0.4:
                out.append('<xs:element name="%s" type="%s:%s"/>' % (t if r.random() < 0.5 else t.lower(), ns["pfx"], t))
        sub = g_name(r, used)
        out.append('<xs:element name="%s" type="%s:%s" substitutionGroup="%s:%s"/>' % (sub, ns["pfx"], ns["types"][0], ns["pfx"], head))
        out.append("</xs:schema>")
        files[ns["file"]] = "\n".join(out)
    return files


def g_set_stress(r):
    """Layered multi-namespace set aimed at every place where a handler could iterate a SET of strings: K leaf namespaces
    that all define the same local names (type, enum, element, group, attributeGroup), one root module that imports them
    all (imports with equal local names -> aliases), restrictions that drop >= 2 (here 5..10) parent elements/wildcards,
    several substitution groups with >= 4 members, several attribute groups / groups flattened into one class, duplicate
    field names, a union over all the same-named enums, extensions across modules.  Layered: no circular imports, so that
    all five structure styles generate.  Names are random so that string hashes differ from set to set."""
    used = set()
    K = r.randint(4, 6)
    shared, kind, item, grp, ag = (g_name(r, used) for _ in range(5))
    if r.random() < 0.5:
        shared = shared.lower()
    leaves = []
    files = {}
    for i in range(K):
        uri = "urn:%s:%s" % (g_name(r, used).lower(), g_name(r, used).lower())
        fn = "%s/%s.xsd" % (r.choice(["lib", "common", "x"]), g_name(r, used).lower())
        a3 = [g_name(r, used) for _ in range(3)]
        e2 = [g_name(r, used) for _ in range(2)]
        vals = r.sample(["A", "b", "C1", "d-e", "f_g", "H h", "1x", "None"], 3)
        files[fn] = (
            '<xs:schema xmlns:xs="%s" targetNamespace="%s" xmlns:t="%s" elementFormDefault="qualified">' % (XS, uri, uri)
            + '<xs:simpleType name="%s"><xs:restriction base="xs:string">%s</xs:restriction></xs:simpleType>' % (
                kind, "".join('<xs:enumeration value="%s"/>' % v for v in vals))
            + '<xs:complexType name="%s"><xs:sequence><xs:element name="v%d" type="xs:string"/>'
              '<xs:element name="k" type="t:%s" minOccurs="0"/></xs:sequence><xs:attribute name="id" type="xs:ID"/></xs:complexType>' % (shared, i, kind)
            + '<xs:element name="%s" type="t:%s"/>' % (item, shared)
            + '<xs:group name="%s"><xs:sequence>%s</xs:sequence></xs:group>' % (
                grp, "".join('<xs:element name="%s" type="xs:string" minOccurs="0"/>' % e for e in e2))
            + '<xs:attributeGroup name="%s">%s</xs:attributeGroup>' % (
                ag, "".join('<xs:attribute name="%s" type="xs:string"/>' % a for a in a3))
            + "</xs:schema>")
        leaves.append({"uri": uri, "file": fn, "pfx": "l%d" % i})
    root_uri = "urn:%s:app" % g_name(r, used).lower()
    root_file = "%s.xsd" % g_name(r, used).lower()
    out = ['<xs:schema xmlns:xs="%s" targetNamespace="%s" xmlns:t="%s" elementFormDefault="qualified" %s>' % (
        XS, root_uri, root_uri, " ".join('xmlns:%s="%s"' % (lf["pfx"], lf["uri"]) for lf in leaves))]
    for lf in leaves:
        out.append('<xs:import namespace="%s" schemaLocation="%s"/>' % (lf["uri"], lf["file"]))
    extra = [g_name(r, used) for _ in range(r.randint(3, 5))]
    # base + restrictions that drop many members
    out.append('<xs:complexType name="base"><xs:sequence><xs:element name="keep" type="xs:string"/>'
               + "".join('<xs:element name="m%d" type="%s:%s" minOccurs="0"/>' % (i, lf["pfx"], shared) for i, lf in enumerate(leaves))
               + "".join('<xs:element name="%s" type="xs:string" minOccurs="0"/>' % e for e in extra)
               + '<xs:any namespace="##other" processContents="lax" minOccurs="0"/></xs:sequence>'
               + "".join('<xs:attributeGroup ref="%s:%s"/>' % (lf["pfx"], ag) for lf in leaves)
               + "</xs:complexType>")
    out.append('<xs:complexType name="narrow"><xs:complexContent><xs:restriction base="t:base"><xs:sequence>'
               '<xs:element name="keep" type="xs:string"/></xs:sequence></xs:restriction></xs:complexContent></xs:complexType>')
    out.append('<xs:complexType name="narrow2"><xs:complexContent><xs:restriction base="t:base"><xs:sequence>'
               '<xs:element name="keep" type="xs:string"/><xs:element name="m0" type="%s:%s" minOccurs="0"/>'
               '</xs:sequence></xs:restriction></xs:complexContent></xs:complexType>' % (leaves[0]["pfx"], shared))
    out.append('<xs:complexType name="narrow3"><xs:complexContent><xs:restriction base="t:narrow2"><xs:sequence>'
               '<xs:element name="keep" type="xs:string"/></xs:sequence></xs:restriction></xs:complexContent></xs:complexType>')
    # same-named global elements, groups and enums of all leaves used by one class
    out.append('<xs:complexType name="user"><xs:sequence>'
               + "".join('<xs:element ref="%s:%s" minOccurs="0"/>' % (lf["pfx"], item) for lf in leaves)
               + "".join('<xs:group ref="%s:%s"/>' % (lf["pfx"], grp) for lf in leaves)
               + "</xs:sequence>"
               + "".join('<xs:attribute name="a%d" type="%s:%s"/>' % (i, lf["pfx"], kind) for i, lf in enumerate(leaves))
               + "</xs:complexType>")
    out.append('<xs:simpleType name="anyKind"><xs:union memberTypes="%s xs:int xs:date"/></xs:simpleType>' % " ".join(
        "%s:%s" % (lf["pfx"], kind) for lf in leaves))
    # substitution groups with many members
    for h in ("H1", "H2", "H3"):
        out.append('<xs:element name="%s" type="xs:anyType" abstract="true"/>' % h)
        for lf in r.sample(leaves, 4):
            out.append('<xs:element name="%s" type="%s:%s" substitutionGroup="t:%s"/>' % (g_name(r, used), lf["pfx"], shared, h))
    out.append('<xs:complexType name="subsUser"><xs:sequence><xs:element ref="t:H1" maxOccurs="unbounded"/>'
               '<xs:element ref="t:H2" minOccurs="0"/><xs:choice maxOccurs="unbounded"><xs:element ref="t:H3"/>'
               '<xs:element name="alt" type="t:anyKind"/></xs:choice></xs:sequence></xs:complexType>')
    # extension across modules, duplicate field names
    out.append('<xs:complexType name="ext"><xs:complexContent><xs:extension base="%s:%s"><xs:sequence>%s</xs:sequence>'
               '</xs:extension></xs:complexContent></xs:complexType>' % (
                   leaves[0]["pfx"], shared,
                   "".join('<xs:element name="%s" type="%s:%s" minOccurs="0"/>' % (n, lf["pfx"], shared)
                           for n, lf in zip(["value", "Value", "VALUE", "value_", "vAlue", "valuE"], leaves))))
    out.append('<xs:element name="root"><xs:complexType><xs:sequence><xs:element name="n" type="t:narrow"/>'
               '<xs:element name="n2" type="t:narrow2"/><xs:element name="n3" type="t:narrow3"/><xs:element name="u" type="t:user"/>'
               '<xs:element name="s" type="t:subsUser"/><xs:element name="e" type="t:ext"/>'
               '<xs:element name="%s" type="t:base"/></xs:sequence></xs:complexType></xs:element>' % shared)
    out.append("</xs:schema>")
    files[root_file] = "".join(out)
    return files


def routes_sources():
    """Class names ending in `Class` and well-known namespaces: what GeneratorConfig.create()'s default substitutions
    would rewrite (so a route that silently starts from the init-config template shows up), list fields and an enum."""
    a = ('<xs:schema xmlns:xs="%s" xmlns:xlink="http://www.w3.org/1999/xlink" xmlns:enc="http://schemas.xmlsoap.org/soap/encoding/">'
         '<xs:import namespace="http://www.w3.org/1999/xlink" schemaLocation="lib/link.xsd"/>'
         '<xs:import namespace="http://schemas.xmlsoap.org/soap/encoding/" schemaLocation="lib/enc.xsd"/>'
         '<xs:simpleType name="colourClass"><xs:restriction base="xs:string"><xs:enumeration value="red"/><xs:enumeration value="dark blue"/></xs:restriction></xs:simpleType>'
         '<xs:complexType name="shapeClass"><xs:sequence><xs:element name="point" type="xs:int" maxOccurs="unbounded"/>'
         '<xs:element name="colour" type="colourClass" minOccurs="0"/><xs:element name="link" type="xlink:linkClass" minOccurs="0"/>'
         '<xs:element name="items" type="enc:arrayClass" minOccurs="0" maxOccurs="3"/></xs:sequence><xs:attribute name="id" type="xs:ID"/></xs:complexType>'
         '<xs:complexType name="itemClass"><xs:choice maxOccurs="unbounded"><xs:element name="a" type="xs:string"/><xs:element name="b" type="shapeClass"/></xs:choice></xs:complexType>'
         '<xs:element name="root"><xs:complexType><xs:sequence><xs:element name="shape" type="shapeClass" maxOccurs="unbounded"/>'
         '<xs:element name="item" type="itemClass"/></xs:sequence></xs:complexType></xs:element></xs:schema>' % XS)
    b = ('<xs:schema xmlns:xs="%s" targetNamespace="http://www.w3.org/1999/xlink" elementFormDefault="qualified">'
         '<xs:complexType name="linkClass"><xs:sequence><xs:element name="href" type="xs:anyURI"/></xs:sequence></xs:complexType></xs:schema>' % XS)
    c = ('<xs:schema xmlns:xs="%s" targetNamespace="http://schemas.xmlsoap.org/soap/encoding/" elementFormDefault="qualified">'
         '<xs:complexType name="arrayClass"><xs:sequence><xs:element name="v" type="xs:decimal" maxOccurs="unbounded"/></xs:sequence></xs:complexType></xs:schema>' % XS)
    return {"app.xsd": a, "lib/link.xsd": b, "lib/enc.xsd": c}


ROUTE_FIXED = [{}, {"format.order": True, "format.eq": False}, {"generic_collections": True, "format.frozen": True},
               {"format.frozen": True, "format.slots": True}, {"format.unsafe_hash": True, "format.eq": False, "structure_style": "namespaces"},
               {"format.order": True, "format.eq": False, "format.frozen": True, "generic_collections": True, "structure_style": "clusters"},
               {"format.repr": False, "compound_fields.enabled": True, "structure_style": "single-package", "package": "pkg.models"}]


def g_route_options(r):
    """Options that can be spelled as `xsdata generate` flags, incl. conflicting / dependent ones that validate() resolves."""
    o = {}
    if r.random() < 0.6:
        o["structure_style"] = r.choice(STYLES)
    if r.random() < 0.5:
        o["package"] = r.choice(["gen", "pkg.models", "a.b.c"])
    if r.random() < 0.3:
        o["docstring_style"] = r.choice(["reStructuredText", "NumPy", "Google", "Accessible", "Blank"])
    for k in ("relative_imports", "compound_fields.enabled", "wrapper_fields", "generic_collections", "unnest_classes", "ignore_patterns"):
        if r.random() < 0.35:
            o[k] = r.random() < 0.7
    if r.random() < 0.25:
        o["max_line_length"] = r.choice([60, 79, 100, 120])
    for k in ("format.repr", "format.eq", "format.order", "format.unsafe_hash", "format.frozen", "format.slots"):
        if r.random() < 0.45:
            o[k] = r.random() < 0.5
    if r.random() < 0.15:
        o["format.value"] = "dataclasses"
    return o


def g_route_op(r, options, generate):
    keys = list(options)
    file_keys = [k for k in keys if r.random() < 0.5]
    overridden = {}
    # a flag may override a value of the project file -- but not for the options that take part in a conflict rule
    # (eq/order, generic_collections/frozen): a project file that is itself conflicting is legitimately resolved when it
    # is READ (with a warning), before the flag is applied, so "file says order=true eq=false, flag says --no-order" ends
    # with eq=true by design; that is not the same option set as {eq=false, order=false} (false alarm of round 4)
    overridable = [k for k in file_keys if k not in ("format.eq", "format.order", "format.frozen", "generic_collections")]
    if overridable and r.random() < 0.4:
        k = r.choice(overridable)
        v = options[k]
        if isinstance(v, bool):
            overridden[k] = not v
        elif k == "structure_style":
            overridden[k] = r.choice([x for x in STYLES if x != v])
        elif k == "package":
            overridden[k] = "other.pkg"
    return {"op": "routes", "sources": routes_sources(), "options": options, "file_keys": file_keys, "file_overridden": overridden,
            "generate": generate}


CLASS_SUBS = [
    [{"type": "class", "search": "(.*)Class$", "replace": "\\1Type"}],
    [{"type": "class", "search": "^shape", "replace": "figure"}, {"type": "field", "search": "^point$", "replace": "pt"}],
    [{"type": "class", "search": "(.*)Class$", "replace": "Kind\\1"}, {"type": "package", "search": "http://www.w3.org/1999/xlink", "replace": "xl"}],
]


def g_interleave(r, fsets):
    """(A, B): two configurations for the same sources that differ in what a process-wide memo could wrongly share:
    class/field/package substitutions, naming conventions, structure style, package."""
    src = r.choice([routes_sources(), routes_sources(), fsets["primer"][0], g_set_stress(r)])
    style = r.choice(STYLES)
    variants = [{"default_substitutions": True}, {}, {"substitutions": r.choice(CLASS_SUBS)},
                {"conventions": {"class_name": {"case": "mixedPascalCase", "safe_prefix": "T"}, "field_name": {"case": "mixedCase", "safe_prefix": "f"}}},
                {"substitutions": r.choice(CLASS_SUBS), "conventions": {"class_name": {"safe_prefix": "Kls"}}}]
    va, vb = r.sample(variants, 2)
    a = dict({"structure_style": style, "package": "gen"}, **va)
    b = dict({"structure_style": style if r.random() < 0.6 else r.choice(STYLES), "package": r.choice(["gen", "other.pkg"])}, **vb)
    mk = lambda jid, o: {"op": "pipeline", "id": jid, "sources": src, "options": o, "timeout": 90}  # noqa: E731
    return mk("A", a), mk("B", b)


STYLES = ["filenames", "namespaces", "clusters", "single-package", "namespace-clusters"]


def g_options(r, style=None):
    o = {"structure_style": style or r.choice(STYLES), "package": r.choice(["gen", "pkg.models", "a.b.c"])}
    if r.random() < 0.5:
        o["compound_fields"] = r.choice([True, {"enabled": True, "force_default_name": True},
                                         {"enabled": True, "use_substitution_groups": True, "max_name_parts": 2}])
    if r.random() < 0.35:
        o["unnest_classes"] = True
    if r.random() < 0.25:
        o["wrapper_fields"] = True
    if r.random() < 0.25:
        o["relative_imports"] = True
    if r.random() < 0.2:
        o["generic_collections"] = True
    if r.random() < 0.2:
        o["docstring_style"] = r.choice(["NumPy", "Google", "Accessible", "Blank"])
    if r.random() < 0.2:
        o["frozen"] = True
        o.pop("generic_collections", None)
    if r.random() < 0.2:
        o["slots"] = True
    if r.random() < 0.2:
        o["default_substitutions"] = True
    if r.random() < 0.15:
        o["conventions"] = {"field_name": {"case": "mixedCase", "safe_prefix": "f"}, "class_name": {"case": "mixedPascalCase"}}
    if r.random() < 0.15:
        o["ignore_patterns"] = True
    return o


def fixture_sets():
    fx = os.path.join(REPO, "tests", "fixtures")
    sch = os.path.join(REPO, "xsdata", "schemas")

    def rd(*p):
        with open(os.path.join(*p), encoding="utf-8") as f:
            return f.read()

    sets = {
        "primer": ({"order.xsd": rd(fx, "primer", "order.xsd")}, None),
        "books": ({"schema.xsd": rd(fx, "books", "schema.xsd")}, None),
        "compound": ({"schema.xsd": rd(fx, "compound", "schema.xsd")}, None),
        "wrapper": ({"schema.xsd": rd(fx, "wrapper", "schema.xsd")}, None),
        "docstrings": ({"schema.xsd": rd(fx, "docstrings", "schema.xsd")}, None),
        "dtd": ({"complete_example.dtd": rd(fx, "dtd", "complete_example.dtd")}, None),
        "calculator": ({"services.wsdl": rd(fx, "calculator", "services.wsdl")}, None),
        "hello": ({"hello.wsdl": rd(fx, "hello", "hello.wsdl"), "hello.xsd": rd(fx, "hello", "hello.xsd")}, ["hello.wsdl"]),
        "annotations": ({"model.xsd": rd(fx, "annotations", "model.xsd"), "units.xsd": rd(fx, "annotations", "units.xsd")}, None),
        "artists": ({n: rd(fx, "artists", n) for n in ("art001.xml", "art002.xml", "art003.xml")}, None),
        "series": ({n: rd(fx, "series", "samples", n) for n in ("show1.json", "show2.json")}, None),
        "stripe": ({"balance.json": rd(fx, "stripe", "samples", "balance.json")}, None),
        "mixed-kinds": ({"order.xsd": rd(fx, "primer", "order.xsd"), "complete_example.dtd": rd(fx, "dtd", "complete_example.dtd"),
                         "art001.xml": rd(fx, "artists", "art001.xml"), "show1.json": rd(fx, "series", "samples", "show1.json")}, None),
        "xlink": ({"xlink.xsd": rd(sch, "xlink.xsd"), "xml.xsd": rd(sch, "xml.xsd")}, ["xlink.xsd"]),
        "soapenc": ({"soapenc.xsd": rd(sch, "soapenc.xsd")}, None),
        "mathml3": ({n: rd(sch, n) for n in ("mathml3.xsd", "mathml3-common.xsd", "mathml3-strict-content.xsd",
                                             "mathml3-content.xsd", "mathml3-presentation.xsd")}, ["mathml3.xsd"]),
    }
    return sets


# ------------------------------------------------------------------ id() reuse search
def idreuse_sources(K):
    """Two files with K groups each (every group = one repeatable xs:sequence of two elements) and a third file whose
    single complex type refers to all 2K groups: any two of the 2K xs:sequence objects that receive the same id()
    (possible across files: a Schema is released as soon as it is mapped) are merged into one sequence."""
    files = {}
    for i in range(2):
        body = []
        for k in range(K):
            body.append('<xs:group name="G%d_%03d"><xs:sequence maxOccurs="unbounded"><xs:element name="e%d_%03d" type="xs:string"/>'
                        '<xs:element name="f%d_%03d" type="xs:string"/></xs:sequence></xs:group>' % (i, k, i, k, i, k))
        files["s%02d.xsd" % i] = '<xs:schema xmlns:xs="%s" targetNamespace="urn:a" xmlns="urn:a">%s</xs:schema>' % (XS, "".join(body))
    refs = "".join('<xs:group ref="G%d_%03d"/>' % (i, k) for i in range(2) for k in range(K))
    files["s02.xsd"] = ('<xs:schema xmlns:xs="%s" targetNamespace="urn:a" xmlns="urn:a"><xs:complexType name="C">'
                        '<xs:choice maxOccurs="unbounded">%s</xs:choice></xs:complexType></xs:schema>' % (XS, refs))
    return files


def seq_ids(raw_classes):
    """class name -> [(attr name, generated sequence number, raw id of the first 's' in its path)]"""
    out = {}
    for c in raw_classes or []:
        rows = []
        for a in c["attrs"]:
            for x in [a] + a["choices"]:
                sid = next((p[1] for p in x["restrictions"]["path"] if p[0] == "s"), None)
                rows.append((x["name"], x["restrictions"]["sequence"], sid))
        out[c["name"]] = rows
    return out


# ------------------------------------------------------------------ comparison helpers
def first_diff(a, b, path=""):
    """First difference between two JSON values: (path, a-part, b-part)."""
    if type(a) is not type(b):
        return path, a, b
    if isinstance(a, dict):
        for k in sorted(set(a) | set(b)):
            if k not in a or k not in b:
                return path + "/" + str(k), a.get(k, "<absent>"), b.get(k, "<absent>")
            d = first_diff(a[k], b[k], path + "/" + str(k))
            if d:
                return d
        if list(a) != list(b):
            return path + " (key order)", list(a), list(b)
        return None
    if isinstance(a, list):
        if len(a) != len(b):
            return path + " (length)", len(a), len(b)
        for i, (x, y) in enumerate(zip(a, b)):
            d = first_diff(x, y, "%s[%d]" % (path, i))
            if d:
                return d
        return None
    if isinstance(a, str) and a != b and "\n" in a:
        la, lb = a.split("\n"), b.split("\n")
        for i, (x, y) in enumerate(zip(la, lb)):
            if x != y:
                return "%s line %d" % (path, i + 1), x, y
        return path + " (line count)", len(la), len(lb)
    return None if a == b else (path, a, b)


COMPARED = ("status", "stage", "file_list", "files", "modules", "packages", "real_render")


def view(res):
    v = {k: res.get(k) for k in COMPARED}
    v["error_type"] = (res.get("error") or {}).get("type")
    return v


SEQ_LINE = re.compile(r'^\s*"sequence": \d+,?$')


def seq_blind(x):
    """id_blind + the generated sequence numbers made indistinguishable."""
    if isinstance(x, dict):
        return {k: ("seq" if k == "sequence" and isinstance(v, int) else seq_blind(v)) for k, v in x.items()}
    if isinstance(x, list):
        return [seq_blind(v) for v in x]
    return x


def only_sequence_lines_differ(fa, fb):
    if sorted(fa) != sorted(fb):
        return False
    for k in fa:
        la, lb = fa[k].split("\n"), fb[k].split("\n")
        if len(la) != len(lb):
            return False
        for x, y in zip(la, lb):
            if x != y and not (SEQ_LINE.match(x) and SEQ_LINE.match(y)):
                return False
    return True


def id_blind(x):
    """The class dump with the canonical id labels ('id0', 'id1', ...) made indistinguishable."""
    if isinstance(x, dict):
        return {k: id_blind(v) for k, v in x.items()}
    if isinstance(x, list):
        return [id_blind(v) for v in x]
    if isinstance(x, str) and re.fullmatch(r"id\d+", x):
        return "id"
    return x


TS = re.compile(r"on \d{4}-\d\d-\d\d \d\d:\d\d:\d\d")


def run(ck: Check):
    ck.level = "proof"
    t_start = time.time()
    obligations, discharged, axioms = standard_proof_step(ck, extra_targets=["Model/GraphCorr.vo"])
    ck.cov["wall_proof_step_s"] = round(time.time() - t_start, 1)
    r = ck.rng
    nseeds = ck.n(4, 64)
    seeds = [str(s) for s in ([0, 1, 2, 3] + [r.randint(4, 2 ** 32 - 1) for _ in range(nseeds - 4)])[:nseeds]]
    core_seeds = seeds[:ck.n(3, 6)]
    dist = {}
    distinct = set()
    # --replay FILE: only the input stored in the replay file (an operation on a core, or a pipeline job)
    rp = None
    if getattr(ck, "replay_file", None):
        with open(ck.replay_file) as f:
            rp = json.load(f).get("replay") or {}
        ck.notes.append("replay of " + ck.replay_file)
    KIND_OF = {"scc": "scc", "topo": "topo", "clusters": "clusters", "class_list": "class_list", "types": "types",
               "sort_types_direct": "types_direct", "reset": "reset", "imports": "imports", "resolver": "resolver"}

    # ================================================================== A. the modelled cores
    # (runs in a background thread, with its own generator, while the pipeline sweep below keeps the other cores busy)
    import random
    import threading
    _lock = threading.Lock()
    _failure = ck.failure

    def _locked_failure(*a, **k):
        with _lock:
            return _failure(*a, **k)

    ck.failure = _locked_failure

    def cores_part(r):
        N = ck.n(1, 4)
        ops, kinds = [], []

        def add(kind, op):
            ops.append(op)
            kinds.append(kind)
            dist[kind] = dist.get(kind, 0) + 1

        for o in ([rp.get("op"), rp.get("a"), rp.get("b")] if rp is not None else []):
            if isinstance(o, dict) and o.get("op") in KIND_OF:
                add(KIND_OF[o["op"]], {k: v for k, v in o.items() if k != "of"})
        gen_cores = rp is None
        if gen_cores:
            # corpus: operations of earlier violations run first
            rdir0 = os.path.join(ROOT, "replays", ck.pid)
            for fn in sorted(os.listdir(rdir0)) if os.path.isdir(rdir0) else []:
                try:
                    with open(os.path.join(rdir0, fn)) as f:
                        old = json.load(f).get("replay") or {}
                    for o in (old.get("op"), old.get("a") if isinstance(old.get("a"), dict) and "op" in old.get("a", {}) else None):
                        if isinstance(o, dict) and o.get("op") in KIND_OF:
                            add(KIND_OF[o["op"]], {k: v for k, v in o.items() if k != "of"})
                except Exception:  # noqa
                    pass
        for _ in range(ck.n(90, 480) if gen_cores else 0):
            add("scc", {"op": "scc", "edges": g_graph(r)})
        for _ in range(120 * N if gen_cores else 0):
            add("topo", {"op": "topo", "data": g_topo(r)})
        for _ in range(ck.n(70, 360) if gen_cores else 0):
            specs = g_classes(r)
            op = {"op": "clusters", "classes": specs}
            if r.random() < 0.7:
                qs = [s["qname"] for s in specs]
                op["sort_group"] = r.sample(qs, r.randint(1, len(qs)))
            add("clusters", op)
        for _ in range(50 * N if gen_cores else 0):
            add("class_list", {"op": "class_list", "classes": g_classes(r)})
        for _ in range(60 * N if gen_cores else 0):
            add("resolver", g_resolver(r))
        for _ in range(80 * N if gen_cores else 0):
            add("types", {"op": "types", "types": g_types(r)})
        for tw in (["bool", "object", "XmlDateTime", "object", "bytes"], ["bytes", "XmlDateTime", "object", "QName"],
                   ["object", "Decimal", "XmlDuration", "bytes", "XmlPeriod", "XmlTime"], ["bytes", "object"], ["object", "bytes"]):
            add("types", {"op": "types", "types": tw})
        add("types_direct", {"op": "sort_types_direct", "order": ["bytes", "object"]})
        add("types_direct", {"op": "sort_types_direct", "order": ["object", "bytes"]})
        add("types_direct", {"op": "sort_types_direct", "order": ["str", "object", "int", "bytes"]})
        for _ in range(80 * N if gen_cores else 0):
            base, attrs = g_reset(r)
            add("reset", {"op": "reset", "base": base, "attrs": attrs})
            if attrs and r.random() < 0.5:  # the same class under another (injective, non-zero) labelling of the ids
                labs = sorted({a for a in attrs if a})
                img = r.sample(range(10 ** 13, 10 ** 13 + 1000), len(labs))
                m = dict(zip(labs, img))
                add("reset_relabel", {"op": "reset", "base": base, "attrs": [m.get(a, a) for a in attrs], "of": len(ops) - 1})
        add("reset", {"op": "reset", "base": None, "attrs": [11, 11, 12, 12]})
        add("reset", {"op": "reset", "base": None, "attrs": [7, 7, 7, 7]})  # = the collision witness relabelled by (fun _ => 7)
        for _ in range(50 * N if gen_cores else 0):
            add("imports", {"op": "imports", "imports": g_imports(r)})

        with cf.ThreadPoolExecutor(max_workers=8) as ex:
            core_res = list(ex.map(lambda s: run_impl("impl_c12.py", {"ops": ops}, timeout=1200, with_shims=True, hashseed=s), core_seeds))
        per_seed = [cr["results"] for cr in core_res]
        core_evals = len(ops) * len(core_seeds)
        for si, res in enumerate(per_seed):
            for op, x in zip(ops, res):
                if "harness_error" in x:
                    raise RuntimeError("impl_c12 failed on %s: %s" % (op["op"], x["trace"]))

        def idx(kind):
            return [i for i, k in enumerate(kinds) if k == kind]

        coq_times = {}

        def coq(tag, ctype, pred, items, terms, shard=50):
            t0 = time.time()
            bad = coq_bad_indices("c12_" + tag, IMPORTS, "", ctype, pred, terms, shard=shard)
            coq_times[tag] = [len(terms), round(time.time() - t0, 1)]
            return [items[i] for i in bad]

        def err_of(x):
            e = x.get("err")
            if e is not None and e not in ERR:
                return "other:" + e
            return e

        # ---- scc: model == implementation for the iteration orders it really used; spec on its output
        items, terms, oitems, oterms = [], [], [], []
        for si, res in enumerate(per_seed):
            for i in idx("scc"):
                x = res[i]
                e = err_of(x)
                if e and e.startswith("other:"):
                    ck.failure("scc-unexpected-exception", f"strongly_connected_components raised {e}", {"op": ops[i], "impl": x, "seed": core_seeds[si]})
                    continue
                items.append((si, i))
                terms.append(f"({c_lstr(x['vorder'])}, {c_dict(ops[i]['edges'])}, {c_sum(c_llstr(x.get('comps', [])), e)})")
                distinct.add(("scc", i, tuple(x["vorder"])))
                if e is None:
                    oitems.append((si, i))
                    oterms.append(f"({c_dict(ops[i]['edges'])}, {c_llstr(x['comps'])})")
        for si, i in coq("scc_agree", "list str * list (str * list str) * (list (list str) + nat)", "agree_scc", items, terms):
            ck.failure("corr-scc", f"model and implementation disagree on strongly_connected_components (seed {core_seeds[si]})",
                       {"op": ops[i], "impl": per_seed[si][i], "hashseed": core_seeds[si]})
        for si, i in coq("scc_oracle", "list (str * list str) * list (list str)", "oracle_scc", oitems, oterms):
            ck.failure("scc-not-the-components", f"strongly_connected_components output is not the partition into strongly connected "
                       f"components in reverse topological order (seed {core_seeds[si]})",
                       {"op": ops[i], "impl": per_seed[si][i], "hashseed": core_seeds[si]})
        # the property on this core: same partition under every seed
        items, terms = [], []
        for i in idx("scc"):
            a = per_seed[0][i]
            for si in range(1, len(per_seed)):
                b = per_seed[si][i]
                if ("err" in a) != ("err" in b) or a.get("err") != b.get("err"):
                    ck.failure("scc-seed-dependent", "exception depends on the hash seed", {"op": ops[i], "a": a, "b": b})
                elif "err" not in a:
                    items.append((si, i))
                    terms.append(f"({c_llstr(a['comps'])}, {c_llstr(b['comps'])})")
        for si, i in coq("scc_same", "list (list str) * list (list str)", "oracle_scc_same", items, terms):
            ck.failure("scc-seed-dependent", f"components differ between hash seeds {core_seeds[0]} and {core_seeds[si]}",
                       {"op": ops[i], "seed_a": core_seeds[0], "a": per_seed[0][i], "seed_b": core_seeds[si], "b": per_seed[si][i]})
        ck.cov["scc_vertex_orders_seen"] = len({d for d in distinct if d[0] == "scc"})

        # ---- plain-valued cores: identical under every seed, then model == implementation (seed 0)
        def same_everywhere(kind, key):
            for i in idx(kind):
                a = key(per_seed[0][i])
                for si in range(1, len(per_seed)):
                    b = key(per_seed[si][i])
                    if a != b:
                        ck.failure(kind + "-seed-dependent", f"{kind}: result differs between hash seeds {core_seeds[0]} and {core_seeds[si]}",
                                   {"op": ops[i], "seed_a": core_seeds[0], "a": a, "seed_b": core_seeds[si], "b": b})

        same_everywhere("topo", lambda x: (x.get("ok"), x.get("err")))
        items = idx("topo")
        terms = [f"({c_dict(ops[i]['data'])}, {c_sum(c_lstr(per_seed[0][i].get('ok', [])), err_of(per_seed[0][i]))})" for i in items]
        for i in coq("topo_agree", "list (str * list str) * (list str + nat)", "agree_topo", items, terms):
            ck.failure("corr-toposort", "model and implementation disagree on toposort_flatten", {"op": ops[i], "impl": per_seed[0][i]})
        # the model on a shuffled presentation of the same dict of sets (instance of the theorem)
        sh_terms = []
        for i in items:
            d = [[k, list(v)] for k, v in ops[i]["data"]]
            r.shuffle(d)
            for kv in d:
                r.shuffle(kv[1])
            sh_terms.append(f"({c_dict(ops[i]['data'])}, {c_dict(d)})")
            distinct.add(("topo", i))
        for i in coq("topo_same", "list (str * list str) * list (str * list str)", "model_topo_same", items, sh_terms):
            ck.failure("model-toposort-order-dependent", "the model contradicts C12_toposort_flatten_perm_invariant", {"op": ops[i]})

        # ---- clusters: sort_classes, SCC inside the handler, final modules
        same_everywhere("clusters", lambda x: (x.get("modules"), x.get("sorted_group"), (x.get("run_err") or {}).get("err"),
                                               (x.get("sorted_group_err") or {}).get("err")))
        items, terms, sitems, sterms = [], [], [], []
        for si, res in enumerate(per_seed):
            for i in idx("clusters"):
                x = res[i]
                e = (x.get("run_err") or {}).get("err")
                if e is not None and e not in ERR:
                    ck.failure("clusters-unexpected-exception", f"DesignateClassPackages raised {e}", {"op": ops[i], "impl": x})
                    continue
                mods = clist(x.get("modules", []), lambda m: f"({cstr(m[0])}, {copt(m[1], cstr)})", "(str * option str)")
                names = clist(x["names"], lambda m: f"({cstr(m[0])}, {cstr(m[1])})", "(str * str)")
                items.append((si, i))
                terms.append(f"({c_lstr(x['vorder'])}, {c_dict(x['E'])}, {c_dict(x['D'])}, {names}, {c_sum(mods, e)})")
                distinct.add(("clusters", i, tuple(x["vorder"])))
                if "sort_group" in ops[i] and si == 0:
                    ge = (x.get("sorted_group_err") or {}).get("err")
                    sitems.append((si, i))
                    sterms.append(f"({c_dict(x['D'])}, {c_lstr(ops[i]['sort_group'])}, {c_sum(c_lstr(x.get('sorted_group', [])), ge)})")
        for si, i in coq("clusters_agree", "list str * list (str * list str) * list (str * list str) * list (str * str) * (list (str * option str) + nat)",
                         "agree_clusters", items, terms, shard=40):
            ck.failure("corr-clusters", f"model and implementation disagree on group_by_strong_components (seed {core_seeds[si]})",
                       {"op": ops[i], "impl": per_seed[si][i], "hashseed": core_seeds[si]})
        for si, i in coq("sortcls_agree", "list (str * list str) * list str * (list str + nat)", "agree_sort_classes", sitems, sterms):
            ck.failure("corr-sort-classes", "model and implementation disagree on sort_classes", {"op": ops[i], "impl": per_seed[si][i]})

        same_everywhere("class_list", lambda x: (x.get("ok"), x.get("err")))
        items = idx("class_list")
        terms = [f"({c_dict(per_seed[0][i]['D'])}, {c_lstr([s['qname'] for s in ops[i]['classes']])}, "
                 f"{c_sum(c_lstr(per_seed[0][i].get('ok', [])), err_of(per_seed[0][i]))})" for i in items]
        for i in coq("classlist_agree", "list (str * list str) * list str * (list str + nat)", "agree_class_list", items, terms):
            ck.failure("corr-class-list", "model and implementation disagree on create_class_list", {"op": ops[i], "impl": per_seed[0][i]})

        # ---- DependenciesResolver.process on one module (class list, imports, sorted imports; aliases compared across seeds)
        same_everywhere("resolver", lambda x: (x.get("class_list"), x.get("imports"), x.get("aliases"), x.get("err")))
        items = idx("resolver")
        prs = lambda l: clist(l, lambda m: f"({cstr(m[0])}, {cstr(m[1])})", "(str * str)")  # noqa: E731
        terms = [f"({c_dict(per_seed[0][i]['D'])}, {c_lstr(per_seed[0][i]['module'])}, {prs(per_seed[0][i]['names'])}, "
                 f"{c_sum(prs(per_seed[0][i].get('sorted', [])), err_of(per_seed[0][i]))})" for i in items]
        for i in items:
            distinct.add(("resolver", i))
        for i in coq("resolver_agree", "list (str * list str) * list str * list (str * str) * (list (str * str) + nat)", "agree_resolver", items, terms):
            ck.failure("corr-resolver", "model and implementation disagree on DependenciesResolver.process (class list -> imports -> sorted imports)",
                       {"op": ops[i], "impl": per_seed[0][i]})

        # ---- native types
        items, terms = [], []
        for si, res in enumerate(per_seed):
            for i in idx("types"):
                x = res[i]
                if not x["stable"]:
                    ck.failure("native-types-unstable", "Attr.native_types returned two different orders in one process", {"op": ops[i], "impl": x})
                items.append((si, i))
                terms.append(f"({c_lstr(x['native'])}, {c_lstr(x['sorted'])})")
                distinct.add(("types", tuple(x["native"])))
        # regression oracle of /repo 4392a4a: native_types = the declared types, de-duplicated in declared order
        nterms = [f"({c_lstr(ops[i]['types'])}, {c_lstr(per_seed[si][i]['native'])})" for si, i in items]
        for si, i in coq("native_agree", "list str * list str", "agree_native", items, nterms):
            ck.failure("native-types-tie-order" if {"bytes", "object"} <= set(ops[i]["types"]) else "corr-native-types",
                       f"Attr.native_types is not the declared types de-duplicated in declared order (seed {core_seeds[si]}): "
                       f"declared {ops[i]['types']}, got {per_seed[si][i]['native']}", {"op": ops[i], "impl": per_seed[si][i], "hashseed": core_seeds[si]})
        for si, i in coq("types_agree", "list str * list str", "agree_types", items, terms):
            ck.failure("corr-sort-types", "model and implementation disagree on sort_types(native_types)", {"op": ops[i], "impl": per_seed[si][i]})
        unguarded = {(si, i) for si, i in coq("types_guard", "list str * list str", "guard_types", items, terms)}
        tie_orders = set()
        for i in idx("types"):
            a = per_seed[0][i]
            for si in range(1, len(per_seed)):
                b = per_seed[si][i]
                if a["sorted"] != b["sorted"] or a["native"] != b["native"]:
                    cls = "native-types-tie-order" if (0, i) in unguarded else "native-types-seed-dependent"
                    ck.failure(cls, f"sort_types(native_types) differs between hash seeds {core_seeds[0]} and {core_seeds[si]}",
                               {"op": ops[i], "a": a, "b": b})
            if (0, i) in unguarded:
                per_input = {tuple(t for t in per_seed[si][i]["native"] if t in ("bytes", "object")) for si in range(len(per_seed))}
                if len(per_input) > 1:   # the same input, another order under another seed
                    tie_orders |= per_input
        d = [per_seed[0][i] for i in idx("types_direct")][-3:]
        dterms = [f"({c_lstr(ops[i]['order'])}, {c_lstr(per_seed[0][i]['sorted'])})" for i in idx("types_direct")]
        for i in coq("types_direct", "list str * list str", "agree_types", idx("types_direct"), dterms):
            ck.failure("corr-sort-types", "model and implementation disagree on sort_types (explicit order)", {"op": ops[i], "impl": per_seed[0][i]})
        ck.cov["native_types_tie"] = {
            "function_level_witness_reproduced": d[0]["sorted"] != d[1]["sorted"][::-1] or d[0]["sorted"] == ["bytes", "object"],
            "sort_types([bytes,object])": d[0]["sorted"], "sort_types([object,bytes])": d[1]["sorted"],
            "orders_of_{bytes,object}_that_varied_for_one_input_across_seeds": sorted(map(list, tie_orders)),
            "unguarded_cases": len({i for _, i in unguarded}),
            "verdict": ("REGRESSION: the relative order of bytes and object in native_types varied between the runs (fixed finding native-types-tie-order)"
                        if len(tie_orders) > 1 else "native_types follows the declared order (fix /repo 4392a4a); sort_types still keeps its argument order for the tie")}

        # ---- sequence renumbering
        same_everywhere("reset", lambda x: x.get("ok"))
        items = idx("reset") + idx("reset_relabel")
        terms = [f"({c_lon(ops[i]['base'] or [])}, {c_lon(ops[i]['attrs'])}, {c_lon(per_seed[0][i].get('ok', []))})" for i in items]
        for i in items:
            if "ok" not in per_seed[0][i]:
                ck.failure("reset-unexpected-exception", "ResetAttributeSequenceNumbers raised", {"op": ops[i], "impl": per_seed[0][i]})
            distinct.add(("reset", json.dumps(ops[i]["attrs"]), json.dumps(ops[i]["base"])))
        for i in coq("reset_agree", "list (option N) * list (option N) * list (option N)", "agree_reset", items, terms):
            ck.failure("corr-reset-sequence-numbers", "model and implementation disagree on ResetAttributeSequenceNumbers",
                       {"op": ops[i], "impl": per_seed[0][i]})
        for i in idx("reset_relabel"):
            j = ops[i]["of"]
            if per_seed[0][i].get("ok") != per_seed[0][j].get("ok"):
                ck.failure("reset-label-dependent", "sequence numbers change under an injective relabelling of the ids",
                           {"a": ops[j], "ra": per_seed[0][j], "b": ops[i], "rb": per_seed[0][i]})

        # ---- imports
        same_everywhere("imports", lambda x: x.get("ok"))
        items = idx("imports")
        pr = lambda l: clist(l, lambda m: f"({cstr(m[0])}, {cstr(m[1])})", "(str * str)")  # noqa: E731
        terms = [f"({pr(per_seed[0][i]['names'])}, {pr(per_seed[0][i]['ok'])})" for i in items]
        for i in coq("imports_agree", "list (str * str) * list (str * str)", "agree_imports", items, terms):
            ck.failure("corr-sorted-imports", "model and implementation disagree on sorted_imports", {"op": ops[i], "impl": per_seed[0][i]})
        t_cores = time.time() - t_start

        return {"ops": ops, "kinds": kinds, "per_seed": per_seed, "idx": idx, "t_cores": t_cores, "coq_times": coq_times,
                "core_evals": core_evals}

    bg = cf.ThreadPoolExecutor(max_workers=1)
    cores_future = bg.submit(cores_part, random.Random(ck.seed * 7919 + 12))

    # ================================================================== C. invocation routes (background thread)
    def routes_part(r):
        if rp is not None:
            o = rp.get("op")
            rops = [dict(o, generate=True)] if isinstance(o, dict) and o.get("op") == "routes" else []
        else:
            rops = [g_route_op(r, dict(o), True) for o in ROUTE_FIXED]
            rops += [g_route_op(r, g_route_options(r), True) for _ in range(ck.n(6, 60))]
            rops += [g_route_op(r, g_route_options(r), False) for _ in range(ck.n(120, 1200))]
        if not rops:
            return [], []
        chunks = [rops[i::4] for i in range(4)]
        with cf.ThreadPoolExecutor(max_workers=4) as ex:
            parts = list(ex.map(lambda c: run_impl("impl_c12.py", {"ops": c}, timeout=1800, with_shims=True, hashseed=seeds[0])["results"] if c else [], chunks))
        flat_ops = [o for c in chunks for o in c]
        flat_res = [x for p in parts for x in p]
        return flat_ops, flat_res

    # ================================================================== D. repeated runs inside ONE interpreter (background thread)
    def interleave_part(r, fsets):
        if rp is not None:
            il = rp.get("interleave")
            pairs = [tuple(il)] if il else []
        else:
            src = routes_sources()
            fixed = [({"op": "pipeline", "id": "A", "sources": src, "options": {"structure_style": "namespaces", "default_substitutions": True}, "timeout": 90},
                      {"op": "pipeline", "id": "B", "sources": src, "options": {"structure_style": "namespaces"}, "timeout": 90})]
            fixed.append((fixed[0][1], fixed[0][0]))
            pairs = fixed + [g_interleave(r, fsets) for _ in range(ck.n(5, 40))]
        if not pairs:
            return [], [], []
        with cf.ThreadPoolExecutor(max_workers=6) as ex:
            inter = list(ex.map(lambda ab: run_impl("impl_c12.py", {"ops": [{"op": "interleave", "runs": [ab[0], ab[1], ab[0]]}]}, timeout=900,
                                                    with_shims=True, hashseed=seeds[0])["results"][0], pairs))
            fresh = list(ex.map(lambda ab: run_impl("impl_c12.py", {"ops": [ab[0]]}, timeout=900, with_shims=True, hashseed=seeds[0])["results"][0], pairs))
            fresh_b = list(ex.map(lambda ab: run_impl("impl_c12.py", {"ops": [ab[1]]}, timeout=900, with_shims=True, hashseed=seeds[0])["results"][0], pairs))
        return pairs, inter, list(zip(fresh, fresh_b))

    bg2 = cf.ThreadPoolExecutor(max_workers=2)
    routes_future = bg2.submit(routes_part, random.Random(ck.seed * 104729 + 5))
    inter_future = bg2.submit(interleave_part, random.Random(ck.seed * 15485863 + 3), fixture_sets())

    # ================================================================== B. the real pipeline
    fsets = fixture_sets()
    jobs = []

    def add_job(jid, sources, options, entry=None, timeout=90):
        jobs.append({"op": "pipeline", "id": jid, "sources": sources, "options": options, "entry": entry, "timeout": timeout})

    if rp is not None:
        rj = rp.get("job")
        if isinstance(rj, dict) and rj.get("id") not in ("header", "idreuse"):
            add_job("replay:" + str(rj.get("id")), rj["sources"], rj.get("options") or {}, rj.get("entry"))
    else:
        # corpus: pipeline jobs of earlier violations run first
        rdir = os.path.join(ROOT, "replays", ck.pid)
        for fn in sorted(os.listdir(rdir)) if os.path.isdir(rdir) else []:
            try:
                with open(os.path.join(rdir, fn)) as f:
                    old = json.load(f)
                rj = (old.get("replay") or {}).get("job")
                if isinstance(rj, dict) and old.get("class") != "id-reuse-sequence-collision" and rj.get("id") not in ("header", "idreuse"):
                    add_job("corpus:" + fn[:-5], rj["sources"], rj.get("options") or {}, rj.get("entry"))
            except Exception:  # noqa
                pass
    for name, (sources, entry) in (fsets.items() if rp is None else []):
        styles = STYLES if not ck.quick else r.sample(STYLES, 1 if name == "mathml3" else 3)
        for st in styles:
            if name in ("dtd", "artists", "series", "stripe", "mixed-kinds") and st == "namespace-clusters" and ck.quick:
                continue
            add_job(f"{name}/{st}", sources, g_options(r, st), entry, timeout=400 if name == "mathml3" else 90)
    # set-iteration stress sets: every structure style (default options) + two random option sets, under every seed
    for k in range(ck.n(2, 8) if rp is None else 0):
        sources = g_set_stress(r)
        for st in STYLES:
            add_job(f"stress{k}/{st}", sources, {"structure_style": st})
        for st in r.sample(STYLES, 2):
            add_job(f"stress{k}/{st}+opts", sources, g_options(r, st))
    ngen = ck.n(10, 50) if rp is None else 0
    for k in range(ngen):
        sources = g_schema_set(r)
        for st in r.sample(STYLES, 2 if ck.quick else 3):
            add_job(f"gen{k}/{st}", sources, g_options(r, st))
    ck.cov["pipeline_jobs"] = len(jobs)

    ref = []
    if jobs:
        # config-file route: options -> GeneratorConfig.write -> text -> GeneratorConfig.read
        rt = run_impl("impl_c12.py", {"ops": [{"op": "config_roundtrip", "options": j["options"]} for j in jobs]}, timeout=600,
                      with_shims=True, hashseed=seeds[0])["results"]
        cfg_jobs = []
        for j, x in zip(jobs, rt):
            if "harness_error" in x:
                raise RuntimeError("config_roundtrip failed: " + x["trace"])
            if not x["write_deterministic"]:
                ck.failure("config-write-nondeterministic", "GeneratorConfig.write produced two different texts", {"options": j["options"]})
            if not x["equal"]:
                ck.failure("config-file-roundtrip", "GeneratorConfig.write -> read does not give back the configuration",
                           {"options": j["options"], "xml": x["xml"], "before": x["a"], "after": x["b"]})
            cfg_jobs.append(dict(j, options={"config_xml": x["xml"]}))

        all_idx = list(range(len(jobs)))
        heavy = [i for i in all_idx if jobs[i]["id"].startswith("mathml3")]
        light = [i for i in all_idx if i not in heavy]
        tasks = []   # (label, seed, job list, indices)
        if ck.quick:
            # the 20 s mathml3 job: both runs of the first seed, one run of the next two; everything else everywhere
            for si, s in enumerate(seeds):
                for k in (1, 2):
                    tasks.append((f"seed {s} run {k}", s, jobs, all_idx if (si == 0 or (si < 3 and k == 1)) else light))
        else:
            # every job under the first 8 seeds (the first 4 twice; the 20 s mathml3 jobs twice under the first seed only),
            # plus a rotating quarter of the light jobs under each of the remaining seeds: every light job sees 8 + 14 seeds
            for si, s in enumerate(seeds):
                if si < 8:
                    tasks.append((f"seed {s} run 1", s, jobs, all_idx))
                    if si < 4:
                        tasks.append((f"seed {s} run 2", s, jobs, light + (heavy if si == 0 else [])))
                else:
                    tasks.append((f"seed {s} run 1", s, jobs, [i for i in light if i % 4 == si % 4]))
        tasks.append((f"seed {seeds[0]} via .xsdata.xml", seeds[0], cfg_jobs, light if ck.quick else all_idx))
        labels = [t[0] for t in tasks]

        def batch(task):
            _, seed, jb, idxs = task
            res = run_impl("impl_c12.py", {"ops": [jb[i] for i in idxs]}, timeout=3000, with_shims=True, hashseed=seed)["results"]
            full = [None] * len(jb)
            for i, x in zip(idxs, res):
                full[i] = x
            return full

        with cf.ThreadPoolExecutor(max_workers=ck.n(9, 12)) as ex:
            outs = list(ex.map(batch, tasks))
        ck.cov["evaluations"] += sum(len(t[3]) for t in tasks)
        ref = outs[0]
        status_count = {}
        crashes = []
        for j, x in zip(jobs, ref):
            if "harness_error" in x:
                raise RuntimeError("pipeline job failed in the harness: " + x["trace"])
            status_count[x["status"]] = status_count.get(x["status"], 0) + 1
            if x["status"] == "ok":
                distinct.add(("pipeline", j["id"]))
            if x["status"] == "timeout":
                ck.notes.append(f"job {j['id']} timed out")
            if x["status"] == "error":
                err = x.get("error") or {}
                crashes.append({"job": j["id"], "type": err.get("type"), "message": (err.get("message") or "")[:160], "where": err.get("where")})
        ck.cov["pipeline_status"] = status_count
        ck.cov["pipeline_uncaught_exceptions"] = {"count": len(crashes), "samples": crashes[:6],
                                                  "note": "deterministic (same under every seed); not a C12 matter, reported to C07/C15"}
        ndiff = 0
        id_only = []
        for t, (out, label) in enumerate(zip(outs, labels)):
            if t == 0:
                continue
            for j, a, b in zip(jobs, ref, out):
                if b is None:
                    continue
                if "harness_error" in b:
                    raise RuntimeError("pipeline job failed in the harness: " + b["trace"])
                if a["status"] == "timeout" or b["status"] == "timeout":
                    continue
                route = "config-file-route" if "xsdata.xml" in label else (
                    "repeat-run" if label.startswith(f"seed {seeds[0]} ") else "hash-seed")
                replay = {"job": {k: j[k] for k in ("id", "sources", "options", "entry")}, "a": labels[0], "b": label,
                          "how": "run harness/impl_c12.py (run_impl, with_shims) on {'ops':[dict(job, op='pipeline')]} under the two hash seeds"}
                d = first_diff(view(a), view(b))
                if d:
                    ndiff += 1
                    # narrow class of the known finding: the ONLY differences are (i) which id()-derived numbers coincide,
                    # (ii) the sequence numbers derived from them, (iii) `"sequence": n` lines of the files
                    explained = (a["status"] == b["status"] == "ok" and a["classes"] != b["classes"]
                                 and seq_blind(id_blind(a["classes"])) == seq_blind(id_blind(b["classes"]))
                                 and only_sequence_lines_differ(a["files"], b["files"]))
                    hint = ""
                    ck.failure("id-reuse-sequence-collision" if explained else route + "-output-differs",
                               f"job {j['id']}: {labels[0]} vs {label}: first difference at {d[0]}: {str(d[1])[:120]!r} vs {str(d[2])[:120]!r}{hint}",
                               dict(replay, first_difference={"where": d[0], "a": d[1], "b": d[2]}))
                elif a["classes"] != b["classes"]:
                    dc = first_diff(a["classes"], b["classes"])
                    if id_blind(a["classes"]) == id_blind(b["classes"]):
                        # same files; only the coincidence pattern of id()-derived numbers differs: two containers shared an
                        # id() in one of the runs (cannot happen while the parsed schemas are kept alive, /repo ec91b39)
                        id_only.append({"job": j["id"], "a": labels[0], "b": label, "where": dc[0]})
                        ck.failure("id-coincidence-pattern-differs",
                                   f"job {j['id']}: {labels[0]} vs {label}: same files, but different id()-derived numbers coincide at {dc[0]} "
                                   f"(id() reuse: distinct containers shared an id in one of the runs)",
                                   dict(replay, first_difference={"where": dc[0], "a": dc[1], "b": dc[2]}))
                    else:
                        ndiff += 1
                        ck.failure(route + "-processed-classes-differ",
                                   f"job {j['id']}: {labels[0]} vs {label}: same files, processed classes differ at {dc[0]}: {str(dc[1])[:120]!r} vs {str(dc[2])[:120]!r}",
                                   dict(replay, first_difference={"where": dc[0], "a": dc[1], "b": dc[2]}))
                # messages are not generated files; recorded, not judged
                if (a.get("error") or {}).get("message") != (b.get("error") or {}).get("message") and not d:
                    ck.notes.append(f"job {j['id']}: error message text differs between {labels[0]} and {label}")
        ck.cov["pipeline_differences"] = ndiff
        ck.cov["id_coincidence_only_differences"] = {"count": len(id_only), "samples": id_only[:5],
                                                     "meaning": "identical files; the processed classes differ only in WHICH id()-derived numbers are equal "
                                                                "(id() reuse that had no visible effect in this run)"}
        ck.cov["pipeline_files_compared"] = sum(len((ref[i].get("files") or {})) for t in tasks[1:] for i in t[3])

    # ---- include_header: the header carries the generation time (by design)
    if rp is None or (rp.get("job") or {}).get("id") == "header":
        hdr = {"op": "pipeline", "id": "header", "sources": fsets["primer"][0], "options": {"include_header": True}}
        h1 = run_impl("impl_c12.py", {"ops": [hdr]}, with_shims=True, hashseed=seeds[0])["results"][0]
        time.sleep(1.1)
        h2 = run_impl("impl_c12.py", {"ops": [hdr]}, with_shims=True, hashseed=seeds[0])["results"][0]
        ck.cov["evaluations"] += 2
        if h1["files"] != h2["files"]:
            m1 = {k: TS.sub("on <TIME>", v) for k, v in h1["files"].items()}
            m2 = {k: TS.sub("on <TIME>", v) for k, v in h2["files"].items()}
            d = first_diff(h1["files"], h2["files"])
            if m1 == m2:
                ck.failure("include-header-timestamp", f"two runs differ only in the header time stamp ({d[0]}: {d[1]!r} vs {d[2]!r})",
                           {"job": hdr, "first_difference": d})
            else:
                ck.failure("repeat-run-differs", "two runs with include_header differ beyond the time stamp", {"job": hdr, "first_difference": first_diff(m1, m2)})

    # ---- id() reuse (fixed by /repo ec91b39; kept as a regression witness): compositor ids of released schemas were reused
    if rp is None or (rp.get("job") or {}).get("id") == "idreuse":
        t_id = time.time()
        K = 150
        job_id = {"op": "pipeline", "id": "idreuse", "sources": idreuse_sources(K), "options": {}, "raw_classes": True, "timeout": 120}
        id_tasks = [s for s in seeds[:4] for _ in (0, 1)]
        with cf.ThreadPoolExecutor(max_workers=8) as ex:
            pbs = list(ex.map(lambda s: run_impl("impl_c12.py", {"ops": [job_id]}, with_shims=True, hashseed=s, timeout=600)["results"][0], id_tasks))
        ck.cov["evaluations"] += len(pbs)
        idr = {"runs": [], "expected_distinct_sequences": 2 * K}
        reset_items, reset_terms, runs = [], [], []
        for s, pb in zip(id_tasks, pbs):
            if pb.get("status") != "ok":
                idr["runs"].append({"hashseed": s, "status": pb.get("status")})
                continue
            rows = seq_ids(pb["raw_classes"]).get("C", [])
            seqs, sids = [x[1] for x in rows], [x[2] for x in rows]
            merged = {}
            for nm, sq, sid in rows:
                merged.setdefault(sid, set()).add(nm.split("_", 1)[0][1:] + "_" + nm.split("_", 1)[1])
            coll = sorted(sorted(v) for v in merged.values() if len(v) > 1)
            runs.append({"hashseed": s, "distinct": len(set(seqs)), "collisions": coll, "files": pb["files"], "rows": rows})
            idr["runs"].append({"hashseed": s, "distinct_sequence_numbers": len(set(seqs)), "groups_sharing_an_id": coll[:6]})
            reset_items.append(s)
            reset_terms.append(f"({c_lon([])}, {c_lon(sids)}, {c_lon(seqs)})")
        # the faithful model, given the ids the implementation really used, yields exactly the generated numbers
        for s in [reset_items[i] for i in coq_bad_indices("c12_idreuse_reset", IMPORTS, "", "list (option N) * list (option N) * list (option N)",
                                                               "agree_reset", reset_terms, shard=2)]:
            ck.failure("corr-reset-sequence-numbers", "model and implementation disagree on the sequence numbers of the id-reuse witness", {"seed": s})
        bad = [x for x in runs if x["distinct"] != 2 * K]
        if bad:
            x = min(bad, key=lambda y: len(y["collisions"]))
            other = next((y for y in runs if y["files"] != x["files"]), None)
            what = (f"REGRESSION of the fix /repo ec91b39 (id() reuse): {2 * K} distinct xs:sequence compositors in 2 files, one class referring to all of them: under hash seed {x['hashseed']} "
                    f"only {x['distinct']} sequence numbers are generated; groups merged because their xs:sequence objects got the same id(): "
                    f"{x['collisions'][:4]}")
            if other:
                d = first_diff(x["files"], other["files"])
                what += f"; another run (hash seed {other['hashseed']}) generates {other['distinct']} and different files ({d[0]}: {d[1]!r} vs {d[2]!r})"
            ck.failure("id-reuse-sequence-collision", what,
                       {"job": {k: job_id[k] for k in ("id", "sources", "options")}, "hashseed": x["hashseed"], "collisions": x["collisions"],
                        "distinct_sequence_numbers_per_run": [[y["hashseed"], y["distinct"]] for y in runs]})
        idr["wall_s"] = round(time.time() - t_id, 1)
        ck.cov["id_reuse_search"] = idr

    # ================================================================== join the cores thread
    L = cores_future.result()
    bg.shutdown()
    ops, per_seed, idx, t_cores, coq_times = L["ops"], L["per_seed"], L["idx"], L["t_cores"], L["coq_times"]
    ck.cov["evaluations"] += L["core_evals"]

    # ================================================================== judge the invocation routes
    rops, rres = routes_future.result()
    bg2.shutdown()
    ck.cov["evaluations"] += len(rops)
    rstat = {"option_sets": len(rops), "with_generation": sum(1 for o in rops if o.get("generate")), "route_errors": 0}
    for o, x in zip(rops, rres):
        if "harness_error" in x:
            raise RuntimeError("routes op failed in the harness: " + x["trace"])
        base = {"op": {k: v for k, v in o.items() if k != "generate"}, "argv": x.get("argv"),
                "how": "./check C12 --replay <this file>; routes: api = constructors, file = .xsdata.xml written/read, cli = real cli.generate "
                       "with these flags and no project file, cli_file = project file (file_keys, file_overridden) + the remaining flags"}
        distinct.add(("routes", json.dumps(o["options"], sort_keys=True), tuple(o["file_keys"])))
        if x["errors"]:
            rstat["route_errors"] += 1
            if set(x["errors"]) != {"api", "file", "cli", "cli_file"} or len({e["err"] for e in x["errors"].values()}) != 1:
                ck.failure("route-error-differs", f"options {o['options']}: only some invocation routes fail: { {k: v['err'] + ': ' + v['msg'][:80] for k, v in x['errors'].items()} }",
                           dict(base, errors=x["errors"]))
            continue
        if x.get("uris") != x.get("expected_uris"):
            ck.failure("cli-source-order", f"cli.resolve_source handed {x.get('uris')} to the transformer, expected the sorted list {x.get('expected_uris')}", base)
        for name in ("file", "cli", "cli_file"):
            if x["cfg"][name] != x["cfg"]["api"]:
                d = first_diff(x["cfg"]["api"], x["cfg"][name])
                ck.failure("route-config-differs",
                           f"options {o['options']} (flags {x['argv']}): the configuration reached through route `{name}` differs from the API "
                           f"route at {d[0]}: api={d[1]!r} {name}={d[2]!r}", dict(base, route=name, first_difference=d))
        for name, y in (x.get("out") or {}).items():
            a = x["out"]["api"]
            if (y["status"], y["error_type"], y["files"]) != (a["status"], a["error_type"], a["files"]):
                d = first_diff({"status": a["status"], "error_type": a["error_type"], "files": a["files"]},
                               {"status": y["status"], "error_type": y["error_type"], "files": y["files"]})
                ck.failure("route-output-differs",
                           f"options {o['options']} (flags {x['argv']}): generation through route `{name}` differs from the API route at {d[0]}: "
                           f"{str(d[1])[:100]!r} vs {str(d[2])[:100]!r}", dict(base, route=name, first_difference=d))
    ck.cov["invocation_routes"] = rstat

    # ================================================================== judge the in-process repetitions
    pairs, inter, fresh = inter_future.result()
    ck.cov["evaluations"] += 5 * len(pairs)
    istat = {"triples": len(pairs), "state_changes": 0, "allowed_state_changes": ["*.stopwatches (timings for the debug log)"]}
    for (ja, jb), x, (fr, frb) in zip(pairs, inter, fresh):
        for y in (x, fr, frb):
            if "harness_error" in y:
                raise RuntimeError("interleave op failed in the harness: " + y["trace"])
        a1, b1, a2 = x["results"]
        base = {"interleave": [ja, jb], "how": "./check C12 --replay <this file>: runs A, B, A in one interpreter and A in a fresh one"}
        distinct.add(("interleave", json.dumps([ja["options"], jb["options"]], sort_keys=True)))
        d = first_diff(view(a1), view(a2)) or first_diff(a1["classes"], a2["classes"])
        if d:
            ck.failure("in-process-repetition-differs",
                       f"run A {ja['options']}, then B {jb['options']}, then A again in the same interpreter: the second A differs from the first at "
                       f"{d[0]}: {str(d[1])[:100]!r} vs {str(d[2])[:100]!r}", dict(base, first_difference=d))
        d = first_diff(view(fr), view(a2)) or first_diff(view(fr), view(a1))
        if d:
            ck.failure("in-process-vs-fresh-process-differs",
                       f"A {ja['options']} generated after other runs in the same interpreter differs from A in a fresh interpreter at {d[0]}: "
                       f"{str(d[1])[:100]!r} vs {str(d[2])[:100]!r}", dict(base, first_difference=d))
        d = first_diff(view(frb), view(b1))
        if d:
            ck.failure("in-process-vs-fresh-process-differs",
                       f"B {jb['options']} generated after A {ja['options']} in the same interpreter differs from B in a fresh interpreter at {d[0]}: "
                       f"{str(d[1])[:100]!r} vs {str(d[2])[:100]!r}", dict(base, first_difference=d))
        for i, ch in enumerate(x["state_changes"]):
            for c in ch:
                if c["where"].endswith(".stopwatches"):
                    continue
                istat["state_changes"] += 1
                ck.failure("process-state-grows",
                           f"generation run {i + 1} ({'ABA'[i]}) left process-wide state behind: {c['where']} {c['before']} -> {c['after']}, new keys {c['new_keys']}",
                           dict(base, state_change=c, run=i))
    ck.cov["in_process_repetition"] = istat

    # ================================================================== evidence
    ck.cov["distinct_nontrivial"] = len(distinct)
    ck.cov["rule"] = ("cores: random graphs / dependency dicts / class containers / type lists / sequence-label lists / import lists with "
                      "seed-sensitive (string) keys, each run under every core seed; distinct = distinct (core, input, exported set order) "
                      "triples for scc/clusters, distinct inputs otherwise.  pipeline: distinct (schema set, configuration) jobs that ran to "
                      "completion, each compared across all seeds x 2 runs + the config-file route")
    ck.cov["input_distribution"] = dist
    ck.cov["seeds"] = seeds if len(seeds) <= 8 else seeds[:8] + ["... %d in total" % len(seeds)]
    ck.cov["core_seeds"] = core_seeds
    ck.cov["routes"] = {"api_options": "exercised", "config_file_write_read": "exercised", "repeat_run": "exercised (2 fresh processes per seed; A,B,A with different configurations inside one interpreter + state fingerprint)",
                        "cli_flags": "exercised: the real cli.generate (option table of model_options(GeneratorOutput), kwargs->params, GeneratorConfig.read of the cwd project file, output.update, resolve_source) run on a stand-in for click's decorator API and argv parser (harness/impl_c12.install_click)",
                        "cli_flags_plus_project_file": "exercised", "cli_init_config": "not exercised",
                        "cache_flag": "not exercised"}
    ck.cov["wall_cores_s"] = round(t_cores, 1)
    ck.cov["coq_case_files"] = coq_times
    ck.cov["samples"] = ([{"job": jobs[0]["id"], "options": jobs[0]["options"], "files": ref[0].get("file_list")}] if jobs else []) + \
        ([{"scc": ops[idx("scc")[0]], "impl": per_seed[0][idx("scc")[0]]}] if idx("scc") else []) + \
        ([{"clusters_modules": per_seed[0][idx("clusters")[0]].get("modules")}] if idx("clusters") else [])
    return ck.finish(obligations=obligations, discharged=discharged,
                     checker_cmd="make -C coq Properties/C12.vo Model/GraphCorr.vo && coqc -Q coq XV coq/Properties/C12.v (Print Assumptions)",
                     trusted_base=TRUSTED_COMMON + [
                         "tools/gen_graph.py (type priority table, sort_types shape)",
                         "shims/toposort.py stands in for the toposort package (the published algorithm); shims click/jinja2/requests",
                         "harness/render_standin.py stands in for the Jinja templates; ruff is a no-op",
                         "axioms: " + (", ".join(axioms) or "none (all theorems closed under the global context)")],
                     assumptions=["Python set/dict-of-set iteration order is an arbitrary permutation; id() is an arbitrary labelling",
                                  "algorithm correctness of strongly_connected_components is not proved: outputs are validated by the verified checker scc_check",
                                  "str comparison is by code point; sorted() is stable"])
