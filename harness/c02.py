"""C02 — generated classes are faithful to the XML Schema they came from.

Deciding artefacts
  * theorems of coq/Properties/C02.v: the validator of Spec/XsdCm.v (+ Spec/Cm.v) is sound —
    every word of the content model finds a slot and fills the required fields, order is kept
    under the decidable side condition, attribute defaults re-materialise, type_compat implies
    (by C05's theorems) that values are not retyped, metadata that is equal up to collection
    factories and class nesting accepts the same words;
  * per generated program (translation validation): the schema as read by the INDEPENDENT reader
    harness/xsd_read.py + the binding metadata the real XmlContext built for the really generated
    classes -> `pair_flags` evaluated in Coq for every (schema type, class) pair of a pairing the
    harness proposes and Coq checks to be closed.
Tie: Spec/XsdCm.v's typed validity against lxml's XMLSchema validator on every generated and every
produced document; the slot-assignment abstract against the real XmlParser on every document.
Search: every valid document is parsed (strictest ParserConfig) into the root class, serialized,
compared as canonical typed infosets (verdict in Coq), re-validated with lxml; the option matrix
must not change what is accepted or produced.
"""
import concurrent.futures as cf
import json
import os
import re
import time

from lxml import etree

import cm_export as X
import common
import xsd_gen as G
import xsd_read as R
from common import Check, run_impl, standard_proof_step, TRUSTED_COMMON, CORR, BuildError
from coqterm import cstr, cbool, copt, clist, cnat

HEADER = """From Coq Require Import NArith ZArith List Bool Arith.
From XV Require Import Base.Str Base.Eqb Spec.Cm Spec.XsdVal Spec.XsdCm Model.XsdCorr.
Import ListNotations.
Close Scope N_scope.
Open Scope nat_scope.
Fixpoint bad_idx {A} (f : A -> bool) (i : nat) (l : list A) : list nat :=
  match l with [] => [] | x :: r => if f x then bad_idx f (S i) r else i :: bad_idx f (S i) r end.
"""
XSI = G.XSI
FLAG_NAMES = ["content", "attrs", "attr_types", "text_type", "closure", "order_safe", "order_claimed", "cm_wf", "nillable_bound"]

# output-only generator options (the property says they must not matter)
OUTPUT_ONLY = [
    {"structure_style": "namespaces"},
    {"structure_style": "clusters", "unnest_classes": True},
    {"structure_style": "single-package", "frozen": True, "slots": True},
    {"docstring_style": "Google", "relative_imports": True},
    {"generic_collections": True, "structure_style": "namespace-clusters"},
    {"unnest_classes": True, "docstring_style": "Blank", "frozen": True},
    {"docstring_style": "NumPy", "slots": True, "relative_imports": True, "structure_style": "clusters"},
]


# ------------------------------------------------------------------ Coq evaluation of a file with several Evals
def coq_multi(tag, defs, evals, timeout=900):
    os.makedirs(CORR, exist_ok=True)
    tag = f"{tag}_{os.getpid()}"
    path = os.path.join(CORR, f"c02_{tag}.v")
    with open(path, "w") as f:
        f.write(HEADER + defs + "\n" + "\n".join(f"Eval vm_compute in ({e})." for e in evals) + "\n")
    rc, out, err = common._coqc(path, timeout)
    if os.environ.get("C02_KEEP"):
        import shutil
        shutil.copy(path, "/tmp/c02_keep_" + tag + ".v")
        with open("/tmp/c02_keep_" + tag + ".out", "w") as f:
            f.write(out + err)
    for ext in (".v", ".vo", ".vok", ".vos", ".glob"):
        try:
            os.remove(path[:-2] + ext)
        except FileNotFoundError:
            pass
    try:
        os.remove(os.path.join(CORR, f".c02_{tag}.aux"))
    except FileNotFoundError:
        pass
    if rc != 0:
        raise BuildError(os.path.relpath(path, common.COQ), (out + err)[-3000:])
    vals = []
    for chunk in re.split(r"^\s*= ", out, flags=re.M)[1:]:
        m = list(re.finditer(r"\n\s*: ", chunk))
        vals.append(chunk[:m[-1].start()] if m else chunk)
    if len(vals) != len(evals):
        raise BuildError(os.path.relpath(path, common.COQ), f"expected {len(evals)} values, got {len(vals)}: " + out[-800:])
    return [X.coq_list_to_py(v) for v in vals]


# ------------------------------------------------------------------ term printers: schema side
def ns_term(n):
    return copt(n, cstr)


def wns_term(w):
    if w is None:
        return "None"
    if w[0] == "any":
        return "(Some WAny)"
    if w[0] == "other":
        return f"(Some (WOther {ns_term(w[1])}))"
    return f"(Some (WIn {clist(w[1], ns_term, 'ns')}))"


def wns_plain(w):
    return wns_term(w)[6:-1]


def stype_term(st):
    if st[0] == "atom":
        ws = {"preserve": "WsPreserve", "replace": "WsReplace", "collapse": "WsCollapse"}[st[3]]
        en = "None" if st[2] is None else f"(Some {clist(st[2], cstr, 'str')})"
        return f"(STAtom {cstr(st[1])} {en} {ws})"
    if st[0] == "list":
        return f"(STList {stype_term(st[1])})"
    return f"(STUnion {clist(st[1], stype_term, 'stype')})"


def xcm_term(c):
    k = c[0]
    if k == "el":
        return f"(XEl {cstr(c[1])})"
    if k == "any":
        return f"(XAny {wns_plain(c[1])})"
    if k == "occ":
        return f"(XOcc {cnat(c[1])} {'None' if c[2] is None else '(Some %s)' % cnat(c[2])} {xcm_term(c[3])})"
    ctor = {"seq": "XSeq", "choice": "XChoice", "all": "XAll"}[k]
    return f"({ctor} {clist(c[1], xcm_term, 'xcm')})"


def use_term(a):
    u = a["use"]
    if u == "REQUIRED":
        return "AReq"
    if u == "IMPLIED":
        return "AImplied"
    if u == "FIXED":
        return f"(AFixed {cstr(a['value'])})"
    if u == "DEFAULT":
        return f"(ADefault {cstr(a['value'])})"
    raise R.Unsupported("attribute use " + u)


def tdef_term(t):
    c = t["content"]
    content = {"empty": lambda: "XCEmpty", "simple": lambda: f"(XCSimple {stype_term(c[1])})",
               "elems": lambda: f"(XCElems {xcm_term(c[1])})", "mixed": lambda: f"(XCMixed {xcm_term(c[1])})"}[c[0]]()
    attrs = clist([f"(mk_xattr {cstr(a['qname'])} {use_term(a)} {stype_term(a['stype'])})" for a in t["attrs"]], str, "xattr")
    decls = clist([f"(mk_xdecl {cstr(d['qname'])} {cnat(d['type'])} {cbool(d['nillable'])} {copt(d['default'], cstr)} "
                   f"{copt(d['fixed'], cstr)})" for d in t["decls"]], str, "xdecl")
    derived = clist([f"({cstr(q)}, {cnat(i)})" for q, i in t["derived"]], str, "(name * nat)")
    return f"(mk_tdef {content} {attrs} {wns_term(t['anyattr'])} {decls} {derived} {cbool(t['abstract'])})"


def schema_term(s):
    return clist([tdef_term(t) for t in s["types"]], str, "tdef")


# ------------------------------------------------------------------ term printers: documents
def resolve_qname_value(el, v):
    v = v.strip()
    if ":" in v:
        p, l = v.split(":", 1)
        uri = el.nsmap.get(p)
        return ("{%s}%s" % (uri, l)) if uri else v
    uri = el.nsmap.get(None)
    return ("{%s}%s" % (uri, v)) if uri else v


def xdoc_term(el):
    kids = []

    def text(t):
        if t:
            if kids and kids[-1][0] == "t":
                kids[-1] = ("t", kids[-1][1] + t)
            else:
                kids.append(("t", t))

    text(el.text)
    for c in el:
        if isinstance(c.tag, str):
            kids.append(("e", xdoc_term(c)))
        text(c.tail)
    attrs = []
    for k, v in sorted(el.attrib.items()):
        if k == "{%s}type" % XSI:
            v = resolve_qname_value(el, v)          # "modulo prefixes": the QName is presented in Clark notation
        attrs.append(f"({cstr(k)}, {cstr(v)})")
    ks = clist([f"(DText {cstr(v)})" if k == "t" else v for k, v in kids], str, "xdoc")
    return f"(DElem {cstr(el.tag)} {clist(attrs, str, '(name * str)')} {ks})"


# ------------------------------------------------------------------ term printers: binding side
def fns_of(namespaces):
    """XmlVar.namespaces as _match_namespace reads it."""
    if not namespaces:
        return [("is", None)]
    out = []
    for c in namespaces:
        if c == "##any":
            out.append(("any",))
        elif not c:
            out.append(("is", None))
        elif c == "!":
            out.append(("any",))                     # "!" + no parent namespace: `check[1:] != uri` holds for every uri
        elif c[0] == "!":
            out.append(("not", c[1:]))
        else:
            out.append(("is", c))
    return out


def fns_term(atoms):
    def one(a):
        if a[0] == "any":
            return "FAny"
        if a[0] == "is":
            return f"(FIs {ns_term(a[1])})"
        return f"(FNot {cstr(a[1])})"
    return clist([one(a) for a in atoms], str, "fatom")


def ftype_term(v):
    names, enum = [], None
    for t in v["types"]:
        if "enum" in t:
            names.append("enum")
            enum = (enum or []) + t["values"]
        elif "class" in t:
            names.append("class")
        else:
            names.append(t["py"])
    en = "None" if enum is None else f"(Some {clist(enum, cstr, 'str')})"
    return f"(mk_ftype {clist(names, cstr, 'str')} {copt(v['format'], cstr)} {cbool(v['tokens'])} {en})"


def target_term(v, cidx):
    if v["clazz"] is not None:
        return f"(TClass {cnat(cidx[v['clazz']])})"
    if v["any_type"] or any(t.get("py") == "object" for t in v["types"]):
        return "TAnyType"
    return f"(TPrim {ftype_term(v)})"


def class_fields(cv):
    """(xfield tuple, targets) in the order XmlMeta.find_children offers the vars: element vars, compound vars,
    wildcards — each group by index.  `bounded`: the field holds one item."""
    plain, compound, wild = [], [], []
    for v in sorted(cv["elements"], key=lambda v: v["index"]):
        k = v["kind"]
        req = bool(v.get("py_required")) and not v["list"]
        if k == "element":
            plain.append(([v["qname"]], None, not v["list"], req, v["index"], [(v["qname"], v)]))
        elif k == "elements":
            names = [(c["qname"], c) for c in v["choices"] if not c["wild"]]
            wilds = [c for c in v["choices"] if c["wild"]]
            w = None
            if wilds:
                w = [a for c in wilds for a in fns_of(c["namespaces"])]
            compound.append(([n for n, _ in names], w, not v["list"], req, v["index"], names))
        elif k == "wildcard":
            # a wildcard var may carry typed choices (mixed content classes): find_wildcard tries them first
            names = [(c["qname"], c) for c in v["choices"] if not c["wild"]]
            # ElementNode.child never marks a wildcard var as assigned, and bind_wild_var merges a second child of a
            # non-list wildcard into one AnyElement wrapper: every wildcard var takes any number of children
            wild.append(([n for n, _ in names], fns_of(v["namespaces"]), False, False, v["index"], names))
    return plain + compound + wild


def xclass_term(cv, cidx):
    fields = class_fields(cv)
    fterms, tterms = [], []
    for names, w, bounded, req, rank, targets in fields:
        wt = "None" if w is None else f"(Some {fns_term(w)})"
        fterms.append(f"(mk_xfield {clist(names, cstr, 'name')} {wt} {cbool(bounded)} {cbool(req)} {cnat(rank)})")
        tterms.append(clist([f"({cstr(q)}, {target_term(v, cidx)})" for q, v in targets], str, "(name * ftarget)"))
    text = [v for v in cv["elements"] if v["kind"] == "text"]
    mixed = any(v["kind"] == "wildcard" and v["mixed"] for v in cv["elements"])
    meta = f"(mk_xmeta {clist(fterms, str, 'xfield')} {cbool(bool(text))} {cbool(mixed)})"
    avars = [v for v in cv["attributes"] if v["kind"] == "attribute"]
    anyattr = [v for v in cv["attributes"] if v["kind"] == "attributes"]
    # a tokens (xs:list) field holds a list of members: the enumeration constrains the items, not the attribute value
    # and a union field accepts more than its Enum member's values
    afields = clist([X.afield_term(dict(v, enum=None) if (v["tokens"] or len(v["types"]) != 1) else v) for v in avars],
                    str, "afield")
    atypes = clist([f"({cstr(v['qname'])}, {ftype_term(v)})" for v in avars], str, "(name * ftype)")
    # XmlMeta.find_any_attributes tries every Attributes var (a derived class may add its own to the inherited one)
    aa = "None" if not anyattr else f"(Some {fns_term([a for v in anyattr for a in fns_of(v['namespaces'])])})"
    tx = "None" if not text else f"(Some {ftype_term(text[0])})"
    xsi = clist([f"({cstr(q)}, {cnat(cidx[c])})" for q, c in sorted(cv["xsi"].items()) if c in cidx], str, "(name * nat)")
    bases = clist([cnat(i) for b, i in sorted(cidx.items()) if b.partition("@")[0] in cv["bases"]], str, "nat")
    nillables = clist(sorted({w["qname"] for v in cv["elements"] for w in [v] + v["choices"] if w.get("nillable") and w.get("qname")}),
                      cstr, "name")
    return (f"(mk_xclass {meta} {clist(tterms, str, '(list (name * ftarget))')} {afields} {atypes} {aa} {tx} {xsi} "
            f"{cbool(cv['nillable'])} {bases} {nillables})")


# ------------------------------------------------------------------ pairing proposal (checked in Coq: closure flag)
def propose_pairs(schema, run, root_type):
    classes = {c["id"]: c for c in run["classes"]}
    cidx = {c["id"]: i for i, c in enumerate(run["classes"])}
    types = schema["types"]
    pairs, work = [], [(root_type, run["root_class"])]
    seen = set()
    while work:
        t, c = work.pop(0)
        if (t, c) in seen or c not in classes:
            continue
        seen.add((t, c))
        pairs.append((t, cidx[c]))
        cv = classes[c]
        for d in types[t]["decls"]:
            for v in cv["elements"]:
                for w in [v] + v["choices"]:
                    if w["qname"] == d["qname"] and w.get("clazz") and not w.get("wild"):
                        work.append((d["type"], w["clazz"]))
                        sub = classes.get(w["clazz"], {}).get("xsi", {})
                        for q, t2 in types[d["type"]]["derived"]:
                            if t2 != d["type"] and q in sub:
                                work.append((t2, sub[q]))
    return pairs, cidx


# ------------------------------------------------------------------ minimal instances from the reader's schema (witness replay)
SAMPLE = {"boolean": "true", "decimal": "1.5", "float": "1.5", "double": "1.5", "date": "2001-01-01",
          "dateTime": "2001-01-01T00:00:00", "time": "12:00:00", "duration": "P1D", "gYear": "2001", "gYearMonth": "2001-01",
          "gMonthDay": "--01-01", "gDay": "---01", "gMonth": "--01", "hexBinary": "0A", "base64Binary": "AAAA",
          "language": "en", "anyURI": "urn:x", "negativeInteger": "-1", "nonPositiveInteger": "0", "QName": "x"}


def sample_value(st):
    if st[0] == "atom":
        if st[2]:
            return st[2][0]
        return SAMPLE.get(st[1], "1" if st[1] not in ("string", "normalizedString", "token", "NMTOKEN", "Name", "NCName") else "x")
    if st[0] == "list":
        return sample_value(st[1])
    return sample_value(st[1][0])


def min_word(c):
    k = c[0]
    if k == "el":
        return [c[1]]
    if k == "any":
        return [None]
    if k == "occ":
        return min_word(c[3]) * c[1]
    if k == "choice":
        return min((min_word(x) for x in c[1]), key=len) if c[1] else []
    out = []
    for x in c[1]:
        out += min_word(x)
    return out


def concretise(q):
    """abstract letter of the encoded alphabet -> an element name of that namespace class"""
    if q.startswith("\x00"):
        if q == "\x00":
            return "{urn:c02:fresh}w"
        if q == "\x00\x00":
            return "w"
        return "{%s}w" % q[2:]
    return q


def min_instance(schema, q, t, depth=0):
    """minimal element named q of type t, as text (Clark names turned into prefixes by lxml)"""
    el = etree.Element(q)
    td = schema["types"][t]
    if td["abstract"]:
        for dq, dt in td["derived"]:
            if not schema["types"][dt]["abstract"]:
                el.set("{%s}type" % XSI, "QNAME:" + dq)
                td = schema["types"][dt]
                break
    for a in td["attrs"]:
        if a["use"] == "REQUIRED":
            el.set(a["qname"], sample_value(a["stype"]))
    c = td["content"]
    if c[0] == "simple":
        el.text = sample_value(c[1])
    elif c[0] in ("elems", "mixed") and depth < 12:
        decls = {d["qname"]: d for d in td["decls"]}
        for w in min_word(c[1]):
            if w is None:
                continue
            el.append(min_instance(schema, w, decls[w]["type"], depth + 1))
    return el


def witness_doc(schema, t, word):
    td = schema["types"][t]
    el = etree.Element("witness")
    for a in td["attrs"]:
        if a["use"] == "REQUIRED":
            el.set(a["qname"], sample_value(a["stype"]))
    decls = {d["qname"]: d for d in td["decls"]}
    for q in word:
        q = concretise(q)
        if q in decls:
            el.append(min_instance(schema, q, decls[q]["type"]))
        else:
            el.append(etree.Element(q))
    return serialise_with_qname_values(el)


def serialise_with_qname_values(el):
    """xsi:type values were stored as Clark names: give them a prefix that is in scope"""
    n = [0]
    for e in el.iter():
        v = e.get("{%s}type" % XSI)
        if v and v.startswith("QNAME:"):
            u, l = G.split_q(v[6:])
            if u is None:
                e.set("{%s}type" % XSI, l)
            else:
                n[0] += 1
                # lxml cannot add a declaration to an existing element: wrap through a fresh element
                new = etree.Element(e.tag, nsmap={f"wq{n[0]}": u})
                new.text, new.tail = e.text, e.tail
                for k, val in e.attrib.items():
                    new.set(k, val)
                new.set("{%s}type" % XSI, f"wq{n[0]}:{l}")
                for ch in list(e):
                    new.append(ch)
                if e.getparent() is not None:
                    e.getparent().replace(e, new)
                else:
                    el = new
    return etree.tostring(el, encoding="unicode")


def parse_doc(txt):
    return etree.fromstring(txt.encode())


def clean_out(txt):
    return re.sub(r"^<\?xml[^>]*\?>\s*", "", txt)


# ------------------------------------------------------------------ classification of failures (narrow classes)
QUIRK_CLASS = {1: "nillable-empty-instance-not-preserved", 2: "empty-simple-value-not-preserved",
               3: "union-typed-value-not-preserved", 4: "compound-primitive-choices-confused",
               5: "empty-simple-value-not-preserved", 6: "mixed-content-text-misplaced"}


def norm_msg(msg):
    return re.sub(r"\{[^}]*\}|'[^']*'|`[^`]*`|\d+", "_", msg or "")[:60]


def classify_doc(run, doc, dr, feats, active):
    """Narrow classes of a document the real code refuses: a specific signature, else the known deviations
    that have instances in this very document (`active`, computed in Coq), else [] (= a new violation)."""
    err, msg, stage = dr.get("err"), dr.get("msg", ""), dr.get("stage")
    if err == "WrongRootClass" and "DerivedElement" in msg and parse_doc(doc).get("{%s}type" % XSI) is not None:
        return ["root-xsi-type-yields-derived-element"]
    if err == "ConverterError" and "Unknown format 'None'" in msg and feats.get("pr_mixed_binary"):
        return ["mixed-content-binary-child-format-lost"]
    if err == "ConverterError" and "No converter registered for `tuple`" in msg and (
            run["oset"]["options"].get("frozen") or (run["oset"]["options"].get("format") or {}).get("frozen")):
        return ["frozen-tuple-tokens-no-converter"]
    m_ = re.search(r"XmlElements undefined choice: `([^`]+)` for `<class 'str'>`", msg)
    if err == "SerializerError" and m_ and run["oset"]["options"].get("compound_fields") and any(
            v["kind"] == "elements" and v["name"] == m_.group(1) and any(c["any_type"] and not c["wild"] for c in v["choices"])
            for cv in run["res"]["classes"] for v in cv["elements"]):
        return ["empty-complex-type-in-compound-field"]
    active = sorted((set(active) - {6}) | ({2} if feats.get("pr_empty_simple") else set()))   # 6: text placement never raises
    return sorted({QUIRK_CLASS[q] for q in active})


# ------------------------------------------------------------------ witnesses of FIXED findings: run with every check
XSH = '<?xml version="1.0" encoding="UTF-8"?>\n<xs:schema xmlns:xs="http://www.w3.org/2001/XMLSchema"'

FIXED_WITNESSES = [
    # C02-F1 (fixed 6a57843): a default on an xs:gYear attribute made the generated package fail at import
    {"name": "F1-period-default", "root": "doc", "sources": {"main.xsd": """<?xml version="1.0" encoding="UTF-8"?>
<xs:schema xmlns:xs="http://www.w3.org/2001/XMLSchema">
  <xs:element name="doc">
    <xs:complexType>
      <xs:sequence>
        <xs:element name="m" type="xs:gMonthDay" default="--12-25" minOccurs="0"/>
      </xs:sequence>
      <xs:attribute name="n" type="xs:gYear" default="2001"/>
      <xs:attribute name="ym" type="xs:gYearMonth" fixed="1999-05"/>
    </xs:complexType>
  </xs:element>
</xs:schema>
"""}, "docs": ['<doc/>', '<doc n="1999"><m>--01-31</m></doc>', '<doc ym="1999-05" n="2024Z"/>']},
    # C02-F6 (fixed 9405ceb): a binary-typed child inside mixed content was refused (Unknown format 'None')
    {"name": "F6-mixed-binary-child", "root": "{urn:w}e", "sources": {"main.xsd": """<?xml version="1.0" encoding="UTF-8"?>
<xs:schema xmlns:xs="http://www.w3.org/2001/XMLSchema" targetNamespace="urn:w" elementFormDefault="qualified">
  <xs:element name="e">
    <xs:complexType mixed="true">
      <xs:sequence>
        <xs:element name="a" type="xs:hexBinary" minOccurs="0" maxOccurs="unbounded"/>
        <xs:element name="b" type="xs:base64Binary" minOccurs="0"/>
      </xs:sequence>
    </xs:complexType>
  </xs:element>
</xs:schema>
"""}, "docs": ['<e xmlns="urn:w">t<a>0A</a>u<a>ff00</a><b>AAEC</b>v</e>', '<w:e xmlns:w="urn:w"><w:a>7478313E</w:a></w:e>',
               '<e xmlns="urn:w">only text</e>']},
    # C02-F8 (fixed f0dd6fc, by the C05 builder: converter.serialize takes token tuples): frozen -> tuple tokens in mixed content
    {"name": "F8-frozen-tokens-in-mixed", "root": "m", "variants": [{"frozen": True}, {"frozen": True, "slots": True}],
     "sources": {"main.xsd": XSH + """>
  <xs:element name="m"><xs:complexType mixed="true"><xs:sequence>
    <xs:element name="x.y" minOccurs="0"><xs:simpleType><xs:list itemType="xs:boolean"/></xs:simpleType></xs:element>
  </xs:sequence></xs:complexType></xs:element>
</xs:schema>
"""}, "docs": ["<m> a <x.y>true true</x.y>t</m>"]},
    # C02-F16 (fixed 546b6b2): nillable was lost for an element whose type names a global simpleType
    {"name": "F16-nillable-named-simple-type", "root": "doc", "sources": {"main.xsd": """<?xml version="1.0" encoding="UTF-8"?>
<xs:schema xmlns:xs="http://www.w3.org/2001/XMLSchema">
  <xs:simpleType name="SB"><xs:restriction base="xs:int"><xs:minInclusive value="-5"/></xs:restriction></xs:simpleType>
  <xs:simpleType name="L"><xs:list itemType="xs:token"/></xs:simpleType>
  <xs:element name="doc">
    <xs:complexType>
      <xs:sequence>
        <xs:element name="n1" type="SB" nillable="true"/>
        <xs:element name="n2" type="xs:int" nillable="true"/>
        <xs:element name="n3" type="L" nillable="true"/>
      </xs:sequence>
    </xs:complexType>
  </xs:element>
</xs:schema>
"""}, "docs": ['<doc xmlns:xsi="http://www.w3.org/2001/XMLSchema-instance"><n1 xsi:nil="true"/><n2 xsi:nil="true"/><n3>a b</n3></doc>',
               '<doc><n1>3</n1><n2>4</n2><n3>x</n3></doc>']},
]



# witnesses of OPEN findings: deterministic minimal programs that run with every check, so that every listed
# defect is re-found (KNOWN-FINDING line) whatever the random schemas of the run happen to contain
OPEN_WITNESSES = [
    {"name": "F2-optional-nillable-absent", "root": "doc", "sources": {"main.xsd": XSH + """>
  <xs:element name="doc"><xs:complexType><xs:sequence>
    <xs:element name="x.y" type="xs:float" minOccurs="0" nillable="true"/>
    <xs:element name="k" type="xs:int"/>
  </xs:sequence></xs:complexType></xs:element>
</xs:schema>
"""}, "docs": ["<doc><k>1</k></doc>"]},
    {"name": "F3-empty-list-element", "root": "note", "sources": {"main.xsd": XSH + """>
  <xs:element name="note"><xs:complexType><xs:sequence>
    <xs:element name="Tag"><xs:simpleType><xs:list itemType="xs:double"/></xs:simpleType></xs:element>
    <xs:element name="kind" type="xs:date"/>
  </xs:sequence></xs:complexType></xs:element>
</xs:schema>
"""}, "docs": ["<note><Tag/><kind>2000-10-31</kind></note>"]},
    {"name": "F4-union-priority", "root": "r", "sources": {"main.xsd": XSH + """>
  <xs:element name="r"><xs:complexType><xs:sequence>
    <xs:element name="n1"><xs:simpleType><xs:union memberTypes="xs:gYear xs:double"/></xs:simpleType></xs:element>
  </xs:sequence></xs:complexType></xs:element>
</xs:schema>
"""}, "docs": ["<r><n1>1999</n1></r>"]},
    {"name": "F7-root-xsi-type", "root": "doc", "sources": {"main.xsd": XSH + """>
  <xs:element name="doc" type="Base"/>
  <xs:complexType name="Base"><xs:sequence><xs:element name="p" type="xs:string"/></xs:sequence></xs:complexType>
  <xs:complexType name="D"><xs:complexContent><xs:extension base="Base"><xs:sequence>
    <xs:element name="q" type="xs:int"/></xs:sequence></xs:extension></xs:complexContent></xs:complexType>
</xs:schema>
"""}, "docs": ['<doc xmlns:xsi="http://www.w3.org/2001/XMLSchema-instance" xsi:type="D"><p>x</p><q>1</q></doc>']},
    {"name": "F9-all-group-order", "root": "r", "sources": {"main.xsd": XSH + """>
  <xs:element name="r"><xs:complexType><xs:all>
    <xs:element name="h" type="xs:int" minOccurs="0"/>
    <xs:element name="f" type="xs:string" minOccurs="0"/>
    <xs:element name="d" type="xs:date" minOccurs="0"/>
  </xs:all></xs:complexType></xs:element>
</xs:schema>
"""}, "docs": ["<r><h>1</h><d>2001-01-01</d><f>x</f></r>"]},
    {"name": "F10-repeated-name-order", "root": "m", "sources": {"main.xsd": XSH + """>
  <xs:element name="b" type="xs:string"/>
  <xs:element name="c" type="xs:string" substitutionGroup="b"/>
  <xs:element name="m"><xs:complexType><xs:sequence>
    <xs:element ref="b" minOccurs="0"/>
    <xs:element name="name" type="xs:int"/>
    <xs:element ref="c" minOccurs="2" maxOccurs="unbounded"/>
  </xs:sequence></xs:complexType></xs:element>
</xs:schema>
"""}, "docs": ["<m><c>0</c><name>1</name><c>2</c><c>3</c></m>"]},
    # the XSD analogue of C16-F9: the name Tag occurs as a single particle and inside the repeated choice; with compound
    # fields UpdateAttributesEffectiveChoice regroups only between the first and last duplicate, k2 stays a field of its own
    {"name": "F10b-single-particle-and-repeated-choice", "root": "r", "sources": {"main.xsd": XSH + """>
  <xs:element name="r"><xs:complexType><xs:sequence>
    <xs:element name="f" type="xs:string"/>
    <xs:element name="Tag" type="xs:date"/>
    <xs:choice minOccurs="0" maxOccurs="unbounded">
      <xs:element name="Tag" type="xs:date"/>
      <xs:element name="k2" type="xs:boolean"/>
    </xs:choice>
  </xs:sequence></xs:complexType></xs:element>
</xs:schema>
"""}, "docs": ["<r><f>x</f><Tag>2001-01-01</Tag><k2>true</k2><Tag>2001-01-02</Tag><Tag>2001-01-03</Tag></r>"]},
    # the XSD analogue of C16-F10: the same element name in two sibling choices is merged into ONE single-valued field
    {"name": "F19-name-in-two-choices-single-field", "root": "r", "sources": {"main.xsd": XSH + """>
  <xs:element name="r"><xs:complexType><xs:sequence>
    <xs:choice><xs:element name="b" type="xs:int"/><xs:element name="o" type="xs:date"/></xs:choice>
    <xs:choice><xs:element name="b" type="xs:int"/><xs:element name="c" type="xs:boolean"/></xs:choice>
  </xs:sequence></xs:complexType></xs:element>
</xs:schema>
"""}, "docs": ["<r><b>1</b><b>2</b></r>", "<r><o>2001-01-01</o><c>true</c></r>"]},
    # the base type's repeating choice becomes the compound field `choice` (more branches than max_name_parts); the
    # derived type declares an attribute called choice: its dataclass field replaces the inherited compound field
    {"name": "F20-derived-field-shadows-compound-field", "root": "r", "sources": {"main.xsd": XSH + """>
  <xs:complexType name="Node"><xs:choice maxOccurs="unbounded">
    <xs:element name="a" type="xs:int"/><xs:element name="b" type="xs:date"/>
    <xs:element name="c" type="xs:boolean"/><xs:element name="d" type="xs:time"/>
  </xs:choice></xs:complexType>
  <xs:element name="r"><xs:complexType><xs:complexContent><xs:extension base="Node">
    <xs:attribute name="choice" type="xs:int"/>
  </xs:extension></xs:complexContent></xs:complexType></xs:element>
</xs:schema>
"""}, "docs": ['<r choice="1"><a>1</a><c>true</c><a>2</a></r>']},
    # an element whose complex type is EMPTY is bound as `object`; as a choice of a compound field its '' value has no choice
    {"name": "F21-empty-complex-type-in-compound-field", "root": "r", "sources": {"main.xsd": XSH + """>
  <xs:element name="r"><xs:complexType><xs:choice maxOccurs="unbounded">
    <xs:element name="a" type="xs:time"/><xs:element name="e"><xs:complexType/></xs:element>
  </xs:choice></xs:complexType></xs:element>
</xs:schema>
"""}, "docs": ["<r><e/><a>12:00:00</a><e/></r>"]},
    # simple content over a NAMED simple type with an attribute called value: ClassUtils.copy_attributes skips the text attr
    {"name": "F22-text-field-lost-to-attribute-value", "root": "r", "sources": {"main.xsd": XSH + """>
  <xs:simpleType name="SB"><xs:restriction base="xs:date"/></xs:simpleType>
  <xs:element name="r"><xs:complexType><xs:sequence><xs:element name="s" maxOccurs="unbounded"><xs:complexType>
    <xs:simpleContent><xs:extension base="SB">
      <xs:attribute name="value" type="xs:string"/><xs:attribute name="k" type="xs:int"/>
    </xs:extension></xs:simpleContent></xs:complexType></xs:element></xs:sequence></xs:complexType></xs:element>
</xs:schema>
"""}, "docs": ['<r><s value="v" k="1">2001-01-01</s><s>1999-12-31</s></r>']},
    # a local element of anonymous complex type and an attribute of anonymous enumeration type with the SAME name in one
    # complex type: the inner class K and the inner enumeration share the qname; one of the two fields gets the other's type
    {"name": "F23-same-named-element-and-attribute-anonymous-types", "root": "doc", "sources": {"main.xsd": XSH + """>
  <xs:group name="G"><xs:sequence><xs:element name="k"><xs:complexType><xs:attribute name="x" type="xs:int"/></xs:complexType></xs:element></xs:sequence></xs:group>
  <xs:element name="doc"><xs:complexType><xs:sequence>
    <xs:element name="r1"><xs:complexType><xs:sequence>
      <xs:element name="k"><xs:complexType><xs:attribute name="x" type="xs:int"/></xs:complexType></xs:element></xs:sequence>
      <xs:attribute name="k"><xs:simpleType><xs:restriction base="xs:token"><xs:enumeration value="a"/><xs:enumeration value="b"/></xs:restriction></xs:simpleType></xs:attribute>
    </xs:complexType></xs:element>
    <xs:element name="r2" minOccurs="0"><xs:complexType><xs:sequence><xs:group ref="G"/></xs:sequence>
      <xs:attribute name="k"><xs:simpleType><xs:restriction base="xs:token"><xs:enumeration value="a"/><xs:enumeration value="b"/></xs:restriction></xs:simpleType></xs:attribute>
    </xs:complexType></xs:element>
  </xs:sequence></xs:complexType></xs:element>
</xs:schema>
"""}, "docs": ['<doc><r1 k="a"><k x="1"/></r1></doc>', '<doc><r1><k/></r1><r2 k="b"><k x="2"/></r2></doc>']},
    # anonymous types f inside f, each with an attribute n of anonymous enumeration type: both hoisted enumerations get the
    # qname f_n; the default value of the inner one is looked up in the other enumeration and the attribute falls back to str
    {"name": "F24-same-qname-enumerations-default-reset", "root": "r", "sources": {"main.xsd": XSH + """>
  <xs:element name="r"><xs:complexType><xs:sequence>
    <xs:element name="f"><xs:complexType><xs:sequence>
      <xs:element name="f" minOccurs="0"><xs:complexType><xs:attribute name="n" default="yes"><xs:simpleType><xs:restriction base="xs:token"><xs:enumeration value="yes"/><xs:enumeration value="no"/></xs:restriction></xs:simpleType></xs:attribute></xs:complexType></xs:element>
    </xs:sequence><xs:attribute name="n"><xs:simpleType><xs:restriction base="xs:date"><xs:enumeration value="2001-01-01"/><xs:enumeration value="2002-02-02"/></xs:restriction></xs:simpleType></xs:attribute></xs:complexType></xs:element>
  </xs:sequence></xs:complexType></xs:element>
</xs:schema>
"""}, "docs": ['<r><f n="2001-01-01"><f n="no"/></f></r>', '<r><f><f/></f></r>']},
    {"name": "F11-namespaces-style-shadowing", "root": "envelope", "variants": [{"structure_style": "namespaces"}, {"structure_style": "namespaces"}],
     "sources": {"main.xsd": XSH + """ xmlns:a="http://example.com/ns/a">
  <xs:import namespace="http://example.com/ns/a" schemaLocation="part1.xsd"/>
  <xs:element name="envelope"><xs:complexType><xs:sequence>
    <xs:element name="d" type="xs:time"/><xs:element ref="a:item" minOccurs="0"/>
  </xs:sequence></xs:complexType></xs:element>
</xs:schema>
""", "part1.xsd": XSH + """ targetNamespace="http://example.com/ns/a" elementFormDefault="qualified">
  <xs:element name="item"><xs:complexType><xs:sequence><xs:element name="v" type="xs:int"/></xs:sequence></xs:complexType></xs:element>
</xs:schema>
"""}, "docs": ['<envelope><d>12:00:00</d><a:item xmlns:a="http://example.com/ns/a"><a:v>1</a:v></a:item></envelope>']},
    {"name": "F12-cross-file-substitution-cycle", "root": "{urn:t}root", "sources": {"main.xsd": XSH + """ xmlns:t="urn:t" targetNamespace="urn:t" elementFormDefault="qualified">
  <xs:include schemaLocation="part1.xsd"/>
  <xs:element name="special" type="t:ItemType" substitutionGroup="t:Item"/>
  <xs:element name="root"><xs:complexType><xs:sequence>
    <xs:element ref="t:holder"/>
  </xs:sequence></xs:complexType></xs:element>
</xs:schema>
""", "part1.xsd": XSH + """ xmlns:t="urn:t" targetNamespace="urn:t" elementFormDefault="qualified">
  <xs:complexType name="ItemType"><xs:sequence><xs:element name="v" type="xs:int"/></xs:sequence></xs:complexType>
  <xs:element name="Item" type="t:ItemType"/>
  <xs:element name="holder"><xs:complexType><xs:sequence><xs:element ref="t:Item" maxOccurs="unbounded"/></xs:sequence></xs:complexType></xs:element>
</xs:schema>
"""}, "docs": ['<root xmlns="urn:t"><holder><Item><v>1</v></Item><special><v>2</v></special></holder></root>']},
    {"name": "F13-text-default-on-binary-union", "root": "r", "sources": {"main.xsd": XSH + """>
  <xs:simpleType name="u"><xs:union memberTypes="xs:hexBinary xs:date xs:gYear"/></xs:simpleType>
  <xs:element name="r"><xs:complexType><xs:simpleContent><xs:extension base="u">
    <xs:attribute name="k" type="xs:int"/></xs:extension></xs:simpleContent></xs:complexType></xs:element>
</xs:schema>
"""}, "docs": ['<r k="1">2001</r>']},
    {"name": "F14-other-wildcard-parent-namespace", "root": "{http://example.com/ns/a}envelope", "sources": {"main.xsd": XSH + """ xmlns:t1="urn:t" targetNamespace="http://example.com/ns/a" elementFormDefault="qualified">
  <xs:import namespace="urn:t" schemaLocation="part1.xsd"/>
  <xs:element name="envelope" type="t1:ItemType"/>
</xs:schema>
""", "part1.xsd": XSH + """ targetNamespace="urn:t" elementFormDefault="qualified">
  <xs:complexType name="ItemType"><xs:sequence>
    <xs:element name="name" type="xs:string"/>
    <xs:any namespace="##other" processContents="lax" minOccurs="0" maxOccurs="unbounded"/>
  </xs:sequence></xs:complexType>
</xs:schema>
"""}, "docs": ['<a:envelope xmlns:a="http://example.com/ns/a" xmlns:t="urn:t"><t:name>x</t:name><a:w/></a:envelope>']},
    {"name": "F18-no-namespace-schema-imported", "root": "root", "sources": {"main.xsd": XSH + """ xmlns:a="urn:a">
  <xs:import namespace="urn:a" schemaLocation="part1.xsd"/>
  <xs:include schemaLocation="part2.xsd"/>
  <xs:element name="root"><xs:complexType><xs:sequence>
    <xs:element name="c" type="part-type" maxOccurs="unbounded"/><xs:element ref="a:x" minOccurs="0"/>
  </xs:sequence></xs:complexType></xs:element>
</xs:schema>
""", "part1.xsd": XSH + """ targetNamespace="urn:a">
  <xs:import schemaLocation="part2.xsd"/>
  <xs:element name="x" type="xs:int"/>
</xs:schema>
""", "part2.xsd": XSH + """>
  <xs:complexType name="part-type"><xs:attribute name="kind" type="xs:date"/><xs:attribute name="n" type="xs:string" use="required"/></xs:complexType>
</xs:schema>
"""}, "docs": ['<root><c n="1" kind="2001-01-01"/><c n="2"/></root>']},
    {"name": "F15-unnest-mixed-wrapper", "root": "r", "variants": [{"unnest_classes": True}, {"unnest_classes": True}],
     "sources": {"main.xsd": XSH + """>
  <xs:element name="r"><xs:complexType mixed="true"><xs:sequence>
    <xs:element name="kind" type="xs:int" minOccurs="0" fixed="1278272512"/>
    <xs:element name="d" type="xs:integer"/>
    <xs:element name="note" type="xs:time" minOccurs="0"/>
    <xs:element name="e" type="xs:time"/>
  </xs:sequence></xs:complexType></xs:element>
</xs:schema>
"""}, "docs": ["<r>t<kind>1278272512</kind>u<d>5</d><e>12:00:00</e></r>"]},
]


# shapes every run must cover whatever the random schemas contain (they pass on the unchanged tree): the corner
# cases around handlers that only act on particular shapes
SHAPE_PROGRAMS = [
    # base and derived type each own a repeating choice with more branches than compound_fields.max_name_parts:
    # both compound fields want the default name ("choice"); CreateCompoundFields must rename against inherited fields
    {"name": "S1-extension-both-repeating-choices", "root": "root", "sources": {"main.xsd": XSH + """>
  <xs:complexType name="B"><xs:choice minOccurs="0" maxOccurs="unbounded">
    <xs:element name="a" type="xs:date"/><xs:element name="b" type="xs:time"/>
    <xs:element name="c" type="xs:boolean"/><xs:element name="d" type="xs:decimal"/>
  </xs:choice><xs:attribute name="id" type="xs:int"/></xs:complexType>
  <xs:complexType name="D"><xs:complexContent><xs:extension base="B"><xs:choice minOccurs="0" maxOccurs="unbounded">
    <xs:element name="e" type="xs:dateTime"/><xs:element name="f" type="xs:duration"/>
    <xs:element name="g" type="xs:gYear"/><xs:element name="h" type="xs:double"/>
  </xs:choice></xs:extension></xs:complexContent></xs:complexType>
  <xs:element name="root" type="D"/>
</xs:schema>
"""}, "docs": ['<root id="7"><a>2001-01-01</a><c>true</c><b>12:00:00</b><a>1999-12-31</a><d>1.5</d><e>2001-01-01T00:00:00</e><h>2.5</h><g>2001</g><f>P1D</f></root>',
               '<root><d>0.25</d><g>1999</g></root>', '<root/>']},
    # a substitution-group member whose global complex type has the member's own name (ClassValidator merges the
    # element into the type class), members in a chain, abstract head
    {"name": "S2-substitution-member-same-named-type", "root": "{urn:s}fleet", "sources": {"main.xsd": XSH + """ xmlns:t="urn:s" targetNamespace="urn:s" elementFormDefault="qualified">
  <xs:complexType name="vehicleType"><xs:sequence><xs:element name="wheels" type="xs:int"/></xs:sequence></xs:complexType>
  <xs:element name="vehicle" type="t:vehicleType" abstract="true"/>
  <xs:complexType name="car"><xs:complexContent><xs:extension base="t:vehicleType"><xs:sequence>
    <xs:element name="doors" type="xs:int" minOccurs="0"/></xs:sequence></xs:extension></xs:complexContent></xs:complexType>
  <xs:element name="car" type="t:car" substitutionGroup="t:vehicle"/>
  <xs:element name="bike" type="t:vehicleType" substitutionGroup="t:vehicle"/>
  <xs:element name="van" type="t:car" substitutionGroup="t:car"/>
  <xs:element name="fleet"><xs:complexType><xs:sequence>
    <xs:element ref="t:vehicle" maxOccurs="unbounded"/><xs:element name="owner" type="xs:string" minOccurs="0"/>
  </xs:sequence></xs:complexType></xs:element>
</xs:schema>
"""}, "docs": ['<fleet xmlns="urn:s"><car><wheels>4</wheels><doors>2</doors></car><bike><wheels>2</wheels></bike><van><wheels>4</wheels></van><owner>x</owner></fleet>',
               '<s:fleet xmlns:s="urn:s"><s:van><s:wheels>6</s:wheels><s:doors>5</s:doors></s:van></s:fleet>']},
    # optional elements and choice branches that declare fixed / default values: absent ones must stay absent
    {"name": "S3-optional-fixed-and-default-elements", "root": "cfg", "sources": {"main.xsd": XSH + """>
  <xs:element name="cfg"><xs:complexType><xs:sequence>
    <xs:element name="version" type="xs:string" fixed="1.0" minOccurs="0"/>
    <xs:element name="a" type="xs:int"/>
    <xs:choice>
      <xs:element name="kind" type="xs:token" fixed="k"/>
      <xs:element name="level" type="xs:int" default="3"/>
      <xs:element name="other" type="xs:date"/>
    </xs:choice>
    <xs:element name="note" type="xs:string" default="none" minOccurs="0"/>
    <xs:element name="flag" type="xs:boolean" fixed="true" minOccurs="0" maxOccurs="2"/>
  </xs:sequence></xs:complexType></xs:element>
</xs:schema>
"""}, "docs": ['<cfg><a>1</a><other>2001-01-01</other></cfg>', '<cfg><version>1.0</version><a>2</a><kind>k</kind><note>n</note></cfg>',
               '<cfg><a>3</a><level>5</level><flag>true</flag></cfg>']},
    # anonymous types that reuse an element NAME on different nesting depths of one class (Root.Y, Root.X.Y, Root.X.Z.Y):
    # the inner classes are looked up by name, breadth-first from the using class (ClassUtils.find_nested)
    {"name": "S4-same-named-anonymous-types-across-depths", "root": "{urn:a}root", "sources": {"main.xsd": XSH + """ xmlns:a="urn:a" targetNamespace="urn:a" elementFormDefault="qualified">
  <xs:element name="root"><xs:complexType><xs:sequence>
    <xs:element name="y"><xs:complexType>
      <xs:sequence><xs:element name="p" type="xs:int"/></xs:sequence>
      <xs:attribute name="k" type="xs:string"/></xs:complexType></xs:element>
    <xs:element name="x"><xs:complexType><xs:sequence>
      <xs:element name="y"><xs:complexType>
        <xs:sequence><xs:element name="q" type="xs:string"/></xs:sequence>
        <xs:attribute name="m" type="xs:string"/></xs:complexType></xs:element>
      <xs:element name="z" minOccurs="0"><xs:complexType><xs:sequence>
        <xs:element name="y" maxOccurs="unbounded"><xs:complexType><xs:simpleContent><xs:extension base="xs:date">
          <xs:attribute name="n" type="xs:int"/></xs:extension></xs:simpleContent></xs:complexType></xs:element>
        <xs:element name="x" type="xs:boolean"/>
      </xs:sequence></xs:complexType></xs:element>
    </xs:sequence></xs:complexType></xs:element>
    <xs:element name="z" type="xs:time" minOccurs="0"/>
  </xs:sequence></xs:complexType></xs:element>
</xs:schema>
"""}, "docs": ['<a:root xmlns:a="urn:a"><a:y k="1"><a:p>1</a:p></a:y><a:x><a:y m="2"><a:q>s</a:q></a:y></a:x></a:root>',
               '<root xmlns="urn:a"><y><p>2</p></y><x><y><q>t</q></y><z><y n="3">2001-01-01</y><y>1999-12-31</y><x>true</x></z></x><z>12:00:00</z></root>']},
    # elements and attributes named like the fields the library invents: value (text field), content (mixed content),
    # any_element / any_attributes / other_element (wildcards), choice (compound field), type / nil (xsi attributes)
    {"name": "S5-library-field-names-as-schema-names", "root": "doc", "sources": {"main.xsd": XSH + """>
  <xs:complexType name="Measure"><xs:simpleContent><xs:extension base="xs:decimal">
    <xs:attribute name="value" type="xs:string"/><xs:attribute name="unit" type="xs:string"/>
    <xs:attribute name="content" type="xs:int"/>
  </xs:extension></xs:simpleContent></xs:complexType>
  <xs:complexType name="Open"><xs:sequence>
    <xs:element name="any_element" type="xs:int"/>
    <xs:element name="other_element" type="xs:date" minOccurs="0"/>
    <xs:any namespace="##other" processContents="lax" minOccurs="0" maxOccurs="unbounded"/>
  </xs:sequence>
    <xs:attribute name="any_attributes" type="xs:string"/><xs:attribute name="other_attributes" type="xs:int"/>
    <xs:attribute name="type" type="xs:string"/><xs:attribute name="nil" type="xs:string"/>
    <xs:anyAttribute namespace="##other" processContents="lax"/>
  </xs:complexType>
  <xs:complexType name="Text" mixed="true"><xs:sequence>
    <xs:element name="content" type="xs:int" minOccurs="0"/><xs:element name="value" type="xs:date" minOccurs="0"/>
  </xs:sequence><xs:attribute name="content" type="xs:string"/></xs:complexType>
  <xs:complexType name="Pick"><xs:sequence><xs:element name="value" type="xs:time"/>
    <xs:choice minOccurs="0" maxOccurs="unbounded">
      <xs:element name="choice" type="xs:int"/><xs:element name="a" type="xs:date"/><xs:element name="b" type="xs:boolean"/>
      <xs:element name="c" type="xs:decimal"/><xs:element name="choice_1" type="xs:gYear"/>
    </xs:choice></xs:sequence><xs:attribute name="choice" type="xs:int"/></xs:complexType>
  <xs:element name="doc"><xs:complexType><xs:sequence>
    <xs:element name="m" type="Measure" maxOccurs="unbounded"/>
    <xs:element name="open" type="Open" minOccurs="0"/>
    <xs:element name="text" type="Text" minOccurs="0"/>
    <xs:element name="pick" type="Pick" minOccurs="0"/>
    <xs:element name="value" type="xs:string" minOccurs="0"/>
  </xs:sequence><xs:attribute name="value" type="xs:int"/></xs:complexType></xs:element>
</xs:schema>
"""}, "docs": ['<doc value="3"><m value="v" unit="kg" content="1">1.50</m><m>2</m><value>s</value></doc>',
               '<doc><m unit="g">0.5</m><open any_attributes="x" other_attributes="2" type="t" nil="n" xmlns:f="urn:f" f:att="q"><any_element>1</any_element><other_element>2001-01-01</other_element><f:w>1</f:w><f:v/></open></doc>',
               '<doc><m>1</m><text content="c">a<content>1</content>b<value>2001-01-01</value>c</text><pick choice="4"><value>12:00:00</value><choice>1</choice><b>true</b><choice_1>1999</choice_1><a>2001-01-01</a><choice>2</choice><c>1.5</c></pick></doc>']},
]


def file_witnesses():
    """witnesses too large to write inline: minimised-by-selection replays kept under harness/c02_witnesses/"""
    d = os.path.join(os.path.dirname(os.path.abspath(__file__)), "c02_witnesses")
    return [json.load(open(os.path.join(d, f))) for f in sorted(os.listdir(d)) if f.endswith(".json")]


def witness_programs():
    out = []
    for w in FIXED_WITNESSES + OPEN_WITNESSES + file_witnesses() + SHAPE_PROGRAMS:
        schema = R.read_schema(w["sources"])
        lx = G.compile_schema(w["sources"])
        for d in w["docs"]:
            ok, err = G.validate(lx, d)
            if not ok:
                raise RuntimeError(f"witness document of {w['name']} is not schema-valid: {err}")
        files = [{"tns": re.search(r'targetNamespace="([^"]*)"', t).group(1) if "targetNamespace=" in t else None}
                 for t in w["sources"].values()]
        out.append({"m": {"features": ["witness:" + w["name"]], "files": files}, "sources": w["sources"], "docs": list(w["docs"]),
                    "schema": schema, "root": w["root"], "lxml": lx, "witness": w["name"], "variants": w.get("variants")})
    return out


# ------------------------------------------------------------------ the check
def run(ck: Check):
    ck.level = "translation_validation"
    obligations, discharged, axioms = standard_proof_step(ck, extra_targets=["Model/XsdCorr.vo"])
    r = ck.rng
    NPROG = int(os.environ.get("C02_NPROG") or ck.n(40, 400))
    NDOC = int(os.environ.get("C02_NDOC") or ck.n(20, 60))

    # ---------------- programs
    programs, regen, genbugs = [], {}, []
    while len(programs) < NPROG:
        m, texts, docs, bad, st = G.gen_program(r, NDOC)
        for k, v in st.items():
            regen[k] = regen.get(k, 0) + v
        if bad:
            genbugs.append({"sources": texts, "doc": bad[0][0], "lxml": bad[0][1]})
            continue
        try:
            schema = R.read_schema(texts)
            for t in schema["types"]:
                for a in t["attrs"]:
                    use_term(a)
        except R.Unsupported as e:
            key = "reader: " + str(e)[:50]
            regen[key] = regen.get(key, 0) + 1
            continue
        dg = G.DocGen(m, r)
        rootq = dg.el_qname(m["elements"][m["root"]])
        programs.append({"m": m, "sources": texts, "docs": docs, "schema": schema, "root": rootq,
                         "lxml": G.compile_schema(texts)})
    if genbugs:
        raise RuntimeError("xsd_gen produced a document lxml rejects (generator bug): " + json.dumps(genbugs[0])[:3000])
    programs += witness_programs()

    # ---------------- the real pipeline under the option matrix
    payload = []
    for i, p in enumerate(programs):
        oa, ob = r.choice(OUTPUT_ONLY), r.choice(OUTPUT_ONLY)
        if p.get("variants"):
            oa, ob = p["variants"]
        p["osets"] = [{"name": "plain", "options": {}, "compound": False, "base": None},
                      {"name": "compound", "options": {"compound_fields": True}, "compound": True, "base": None},
                      {"name": "plain+", "options": dict(oa), "compound": False, "base": 0},
                      {"name": "compound+", "options": dict(ob, compound_fields=True), "compound": True, "base": 1}]
        payload.append({"id": i, "sources": p["sources"], "root": p["root"], "docs": p["docs"],
                        "option_sets": [{"name": o["name"], "options": o["options"]} for o in p["osets"]]})
    t0 = time.time()
    res = run_impl("impl_c02.py", {"programs": payload}, timeout=3000, with_shims=True)
    impl_s = round(time.time() - t0, 1)
    runs = []
    for i, p in enumerate(programs):
        p["runs"] = []
        for j, o in enumerate(p["osets"]):
            rr = {"p": p, "pi": i, "oset": o, "res": res[i]["runs"][j], "oi": j}
            p["runs"].append(rr)
            runs.append(rr)
    ck.cov["evaluations"] = sum(len(p["docs"]) * len(p["osets"]) for p in programs)

    def replay_of(run, **kw):
        out = {"sources": run["p"]["sources"], "root": run["p"]["root"], "options": run["oset"]["options"]}
        out.update(kw)
        return out

    # code generation must succeed, the package must import, the root class must exist
    for run in runs:
        g = run["res"]
        if g["status"] != "ok":
            e = g.get("error") or {}
            ck.failure(classify_codegen(run) or "codegen-failed",
                       f"code generation / import failed at {g.get('stage')}: {e.get('type')}: {(e.get('message') or '')[:160]}",
                       replay_of(run, error=e))
    # a variant (output-only options) that fails to generate is reported above; the program's base runs are still judged:
    # the failed variant is replaced by its base run (its comparisons become trivial)
    for p in programs:
        for rr in p["runs"]:
            b = rr["oset"]["base"]
            if b is not None and rr["res"]["status"] != "ok" and p["runs"][b]["res"]["status"] == "ok":
                rr["res"], rr["substituted"] = p["runs"][b]["res"], True
    good_prog = [p for p in programs if all(rr["res"]["status"] == "ok" for rr in p["runs"])]

    # ---------------- option matrix: output-only options must not change what is accepted / produced
    stats = {"docs_ok": 0, "docs_failed": 0, "matrix_compared": 0, "pairs": 0, "pairs_check_true": 0,
             "witness_confirmed": 0, "witness_unconfirmed": 0, "order_claimed_docs": 0}
    matrix_cases = []      # (run, base run, doc index, out a, out b)
    matrix_accept = []     # (run, base run, doc index, result a, result b): accepted by one, refused by the other
    for p in good_prog:
        for rr in p["runs"]:
            if rr["oset"]["base"] is None or rr.get("substituted"):
                continue
            base = p["runs"][rr["oset"]["base"]]
            for j, (a, b) in enumerate(zip(base["res"]["docs"], rr["res"]["docs"])):
                stats["matrix_compared"] += 1
                if ("ok" in a) != ("ok" in b):
                    matrix_accept.append((rr, base, j, a, b))
                elif "ok" in a and a["ok"] != b["ok"]:
                    matrix_cases.append((rr, base, j, a["ok"], b["ok"]))

    # ---------------- Coq case files (sharded by program): base runs only (plain, compound)
    def program_defs(k, p):
        schema = p["schema"]
        defs = [f"Definition S{k} : schema := {schema_term(schema)}."]
        root_decl = schema["elements"][p["root"]]
        for j, doc in enumerate(p["docs"]):
            defs.append(f"Definition DIN{k}_{j} : xdoc := {xdoc_term(parse_doc(doc))}.")
        for rr in p["runs"]:
            if rr["oset"]["base"] is not None:
                continue
            o = rr["oi"]
            pairs, cidx = propose_pairs(schema, rr["res"], root_decl["type"])
            rr["pairs"], rr["cidx"] = pairs, cidx
            cls = clist([xclass_term(cv, cidx) for cv in rr["res"]["classes"]], str, "xclass")
            pr = clist([f"({cnat(t)}, {cnat(c)})" for t, c in pairs], str, "(nat * nat)")
            defs.append(f"Definition P{k}_{o} : program := mk_program S{k} {cls} {pr} "
                        f"({cstr(p['root'])}, {cnat(root_decl['type'])}, {cnat(cidx[rr['res']['root_class']])}) "
                        f"{cbool(root_decl['nillable'])} {cbool(rr['oset']['compound'])}.")
            docs = []
            for j, dr in enumerate(rr["res"]["docs"]):
                if "ok" in dr:
                    try:
                        o_el = parse_doc(clean_out(dr["ok"]))
                        tout = f"(Some {xdoc_term(o_el)})"
                        valid = bool(p["lxml"].validate(o_el))
                        dr["lxml_err"] = "" if valid else str(p["lxml"].error_log.last_error)
                    except etree.XMLSyntaxError:
                        tout, valid = "(Some (DText []))", False
                        ck.failure("output-ill-formed", "the serializer's output is not well-formed XML",
                                   replay_of(rr, doc=p["docs"][j], out=dr["ok"]))
                    dr["valid"] = valid
                else:
                    tout, valid = "None", False
                docs.append(f"(P{k}_{o}, mk_doc DIN{k}_{j} {tout} {cbool(valid)})")
            defs.append(f"Definition DOCS{k}_{o} : list (program * doc) := {clist(docs, str, '(program * doc)')}.")
        # the variants: metadata only (their outputs are compared with the base run's as text first)
        for rr in p["runs"]:
            if rr["oset"]["base"] is None:
                continue
            o = rr["oi"]
            pairs, cidx = propose_pairs(schema, rr["res"], root_decl["type"])
            cls = clist([xclass_term(cv, cidx) for cv in rr["res"]["classes"]], str, "xclass")
            pr = clist([f"({cnat(t)}, {cnat(c)})" for t, c in pairs], str, "(nat * nat)")
            defs.append(f"Definition P{k}_{o} : program := mk_program S{k} {cls} {pr} "
                        f"({cstr(p['root'])}, {cnat(root_decl['type'])}, {cnat(cidx[rr['res']['root_class']])}) "
                        f"{cbool(root_decl['nillable'])} {cbool(rr['oset']['compound'])}.")
        return "\n".join(defs)

    SH = 4
    shards = [good_prog[i:i + SH] for i in range(0, len(good_prog), SH)]
    shard_times = []
    shard_mx = {}
    DOC_PREDS = ["doc_in_valid", "doc_out_valid_agrees", "doc_abstract_sound", "doc_revalid_ok"]
    FEATS = ["pr_empty_simple", "pr_nil", "pr_xsi_type", "pr_mixed_ws", "pr_mixed_binary"]

    def eval_shard(si):
        sh = shards[si]
        defs = "\n".join(program_defs(k, p) for k, p in enumerate(sh))
        pnames = [f"P{k}_{o}" for k in range(len(sh)) for o in (0, 1)]
        alld = " ++ ".join(f"DOCS{k}_{o}" for k in range(len(sh)) for o in (0, 1)) or "[]"
        defs += f"\nDefinition ALLDOCS : list (program * doc) := {alld}.\n"
        mx = []
        for k, p in enumerate(sh):
            for (rr, base, j, a, b) in matrix_cases:
                if rr["p"] is p:
                    mx.append((rr, base, j, a, b))
                    defs += (f"Definition MX{len(mx) - 1} : program * (xdoc * xdoc) := (P{k}_{base['oi']}, "
                             f"({xdoc_term(parse_doc(clean_out(a)))}, {xdoc_term(parse_doc(clean_out(b)))})).\n")
        shard_mx[si] = mx
        mxl = clist([f"MX{i}" for i in range(len(mx))], str, "(program * (xdoc * xdoc))")
        progs = clist(pnames, str, "program")
        evals = [f"map (fun p => map (pair_flags p) (p_pairs p)) {progs}",
                 f"map (fun p => map (pair_rejected p) (p_pairs p)) {progs}",
                 f"map (fun p => map (fun tc => (pair_open_decls p tc, pair_unbound_nillables p tc)) (p_pairs p)) {progs}",
                 f"map root_paired {progs}"]
        evals += [f"bad_idx {pr} 0 ALLDOCS" for pr in DOC_PREDS]
        evals += ["map doc_brejecting ALLDOCS", "map doc_diff ALLDOCS", "map doc_quirks ALLDOCS", "map doc_active_if_failed ALLDOCS"]
        evals += [f"bad_idx matrix_equal 0 {mxl}"]
        evals += ["map doc_order_verdict ALLDOCS"]
        evals += ["[" + "; ".join(f"program_inequiv P{k}_{p['runs'][o]['oset']['base']} P{k}_{o} ++ "
                                  f"program_inequiv P{k}_{o} P{k}_{p['runs'][o]['oset']['base']}"
                                  for k, p in enumerate(sh) for o in (2, 3)) + "]"]
        evals += ["bad_idx (fun pd => negb (doc_feature %s pd)) 0 ALLDOCS"
                  % ("(pr_mixed_binary (p_schema (fst pd)))" if f == "pr_mixed_binary" else f) for f in FEATS]
        t0 = time.time()
        out = coq_multi(f"s{si}", defs, evals, timeout=900)
        shard_times.append(round(time.time() - t0, 1))
        return out

    with cf.ThreadPoolExecutor(max_workers=12) as ex:
        results = list(ex.map(eval_shard, range(len(shards))))

    # ---------------- interpret
    witness_jobs, distinct = [], set()
    for si, sh in enumerate(shards):
        flags, rejected, opend, rootp = results[si][:4]
        bad = [set(x) for x in results[si][4:4 + len(DOC_PREDS)]]
        brej = results[si][4 + len(DOC_PREDS)]
        diffs = results[si][5 + len(DOC_PREDS)]
        quirks = results[si][6 + len(DOC_PREDS)]
        active = results[si][7 + len(DOC_PREDS)]
        bad_mx = results[si][8 + len(DOC_PREDS)]
        verdicts = results[si][9 + len(DOC_PREDS)]
        inequiv = results[si][10 + len(DOC_PREDS)]
        feats = [set(x) for x in results[si][11 + len(DOC_PREDS):]]
        bad_unord = {i for i, v in enumerate(verdicts) if not v[0]}
        bad_info = {i for i, v in enumerate(verdicts) if not v[1]}
        bad_noall = {i for i, v in enumerate(verdicts) if not v[2]}
        bad_nodup = {i for i, v in enumerate(verdicts) if not v[3]}
        for vi, (p_, o) in enumerate([(p_, o) for p_ in sh for o in (2, 3)]):
            stats["meta_equiv_compared"] = stats.get("meta_equiv_compared", 0) + 1
            if inequiv[vi]:
                rr = p_["runs"][o]
                names = [p_["schema"]["types"][t]["name"] or f"anonymous type #{t}" for t in inequiv[vi]]
                types = p_["schema"]["types"]
                mixed_children = {d["type"] for T in types if T["content"][0] == "mixed" for d in T["decls"]}
                cls = "options-change-metadata"
                if rr["oset"]["options"].get("unnest_classes"):
                    cls = "unnest-classes-changes-binding"
                ck.failure(cls,
                           f"binding metadata differs (beyond collection factories and class nesting) under {rr['oset']['options']} "
                           f"for {names[:4]}", replay_of(rr, types=names))
        bad_valid, bad_outvalid, bad_abs, bad_reval = bad
        base_runs = [p["runs"][o] for p in sh for o in (0, 1)]
        docmap = [(rr, j) for rr in base_runs for j in range(len(rr["res"]["docs"]))]
        for ri, rr in enumerate(base_runs):
            p = rr["p"]
            if not rootp[ri]:
                ck.failure("root-not-paired", "the root element's type is not paired with the root class", replay_of(rr))
            rr["flags"] = {}
            for pi_, (tc, fl) in enumerate(zip(rr["pairs"], flags[ri])):
                stats["pairs"] += 1
                distinct.add((json.dumps(p["sources"], sort_keys=True), tc[0], rr["oset"]["name"]))
                rr["flags"][tc[0]] = fl
                names = dict(zip(FLAG_NAMES, fl))
                if not names["cm_wf"]:
                    raise RuntimeError("C02 reader produced an ill-formed content model")
                if all(fl[:5]) and names["nillable_bound"]:
                    stats["pairs_check_true"] += 1
                    continue
                cls_id = rr["res"]["classes"][tc[1]]["id"]
                tname = p["schema"]["types"][tc[0]]["name"] or f"anonymous type #{tc[0]}"
                failed = [n for n in FLAG_NAMES[:5] + ["nillable_bound"] if not names[n]]
                w = rejected[ri][pi_]
                word = ["".join(chr(c) for c in q) for q in w] if w is not None else None
                info = {"type": tname, "class": cls_id, "failed": failed, "word": word,
                        "open_decls": ["".join(chr(c) for c in q) for q in opend[ri][pi_][0]],
                        "unbound_nillables": ["".join(chr(c) for c in q) for q in opend[ri][pi_][1]]}
                rr.setdefault("pair_info", {})[tc[1]] = (tc, info)
                if not names["content"] and word is not None:
                    witness_jobs.append((rr, tc, info))
                else:
                    ck.failure(classify_pair(rr, tc, info) or "validator-rejects-metadata",
                               f"validator: class {cls_id} does not fit {tname}: failed {failed}", replay_of(rr, **info))
        for di, (rr, j) in enumerate(docmap):
            p = rr["p"]
            doc, dr = p["docs"][j], rr["res"]["docs"][j]
            ft = {f: (di in feats[k]) for k, f in enumerate(FEATS)}
            if di in bad_valid:
                ck.failure("corr-schema-validity", "Spec/XsdCm.v's typed validity (on the independent reader's schema) rejects a "
                           "document lxml's XMLSchema validator accepts", replay_of(rr, doc=doc))
            if di in bad_outvalid and "does not match the fixed value constraint" in (dr.get("lxml_err") or ""):
                # libxml2 compares fixed values of boolean / float / date types lexically ('0' vs 'false', 1e3 vs 1E3, Z vs +00:00)
                ck.notes.append("libxml2 refused a produced document for a lexically different but equal fixed value (ignored)")
            elif di in bad_outvalid:
                ck.failure("corr-schema-validity-output", "Spec/XsdCm.v's typed validity and lxml disagree on a produced document",
                           replay_of(rr, doc=doc, out=dr.get("ok"), lxml_valid=dr.get("valid")))
            dr["active"], dr["feats"], dr["quirks"] = active[di], ft, (quirks[di] if di in bad_unord else [])
            if "err" in dr:
                stats["docs_failed"] += 1
                clss = classify_doc(rr, doc, dr, ft, active[di])
                expl = explained_by_validator(rr, brej[di])
                if not clss and expl:
                    # the binding abstract refuses the document at classes whose pairs the validator rejected: the finding
                    # (if any) is the one of those pairs
                    pc = [classify_pair(rr, *rr["pair_info"][c]) for c, _ in brej[di] if c in rr.get("pair_info", {})]
                    clss = sorted({c for c in pc if c})
                if not clss and rr["oset"]["options"].get("compound_fields") and any(
                        rr["res"]["classes"][c].get("shadows_compound") for c, _ in brej[di]):
                    # e.g. a root with xsi:type naming a derived type whose class shadows the inherited compound field
                    clss = ["derived-field-shadows-inherited-compound-field"]
                if not clss and os.environ.get("C02_TRIAGE"):
                    clss = [f"TRIAGE-{dr['stage']}-{dr['err']}-{norm_msg(dr['msg'])}-{'+'.join(k for k, v in ft.items() if v)}-{rr['oset']['name']}"]
                for cls in clss or [("valid-document-rejected-validator-explains" if expl else "valid-document-rejected")]:
                    ck.failure(cls, f"valid document not {'parsed' if dr['stage'] == 'parse' else 'serialized'} "
                               f"({dr['err']}: {dr['msg'][:100]}) under {rr['oset']['name']}",
                               replay_of(rr, doc=doc, impl=dr, abstract_rejects=brej[di], features=ft, active=active[di]))
                continue
            stats["docs_ok"] += 1
            if di in bad_abs and di not in bad_unord:
                ck.failure("corr-parse-abstract", "the slot-assignment abstract refuses a document the real parser binds without loss",
                           replay_of(rr, doc=doc, rejecting=brej[di]))
            if di in bad_unord:
                where = "/".join("".join(chr(c) for c in q) for q in diffs[di])
                qs = quirks[di]
                if qs and 9 not in qs:
                    # the difference is explained by exactly these known deviations (smallest set, computed in Coq)
                    for q in qs:
                        ck.failure(QUIRK_CLASS[q], f"input and output infosets differ only by: {QUIRK_CLASS[q]} (at {where})",
                                   replay_of(rr, doc=doc, out=dr["ok"], where=where, quirks=qs))
                    continue
                cls = "imported-no-namespace-schema-gets-importer-namespace" if imports_no_namespace_schema(p) else None
                if cls is None:
                    cls = pair_finding_at(rr, where)
                if cls is None and os.environ.get("C02_TRIAGE"):
                    cls = f"TRIAGE-infoset-{'+'.join(k for k, v in ft.items() if v)}-{rr['oset']['name']}-{len(ck.violations)}"
                ck.failure(cls or "infoset-mismatch",
                           "output does not have the same elements, attributes and typed values as the input (defaults applied): "
                           + where, replay_of(rr, doc=doc, out=dr["ok"], features=ft, abstract_rejects=brej[di], where=where))
            elif di in bad_info:
                ck.failure("all-group-order-not-preserved" if di not in bad_noall else
                           "repeated-element-name-order-not-preserved" if di not in bad_nodup else "order-not-preserved",
                           "element order changed although the side condition for order holds",
                           replay_of(rr, doc=doc, out=dr["ok"]))
            if di in bad_reval and di not in bad_unord and di not in bad_info:      # a changed order is judged above
                ck.failure("output-not-schema-valid", "serialized output is not schema-valid although order is claimed for all its elements",
                           replay_of(rr, doc=doc, out=dr["ok"]))

    # ---------------- option matrix: outputs that differ as canonical typed infosets (verdict from the shards)
    for si in range(len(shards)):
        for i in results[si][8 + len(DOC_PREDS)]:
            rr, base, j, a, b = shard_mx[si][i]
            # when the base output already deviates from the input by known deviations, the option dependence of WHICH
            # deviation shows is part of those findings (e.g. which of two confusable compound choices is written)
            qs = base["res"]["docs"][j].get("quirks") or []
            for cls in [QUIRK_CLASS[q] for q in qs if q in QUIRK_CLASS] or (
                    ["unnest-classes-changes-binding"] if rr["oset"]["options"].get("unnest_classes") else ["options-change-output"]):
                ck.failure(cls, f"the output of a document differs under {rr['oset']['options']}",
                           replay_of(rr, doc=rr["p"]["docs"][j], base=a, variant=b))

    # ---------------- option matrix: acceptance differs.  When the refusing side fails in a document that has instances of
    # a known deviation, the option dependence is part of that finding; otherwise it is a violation of its own.
    for rr, base, j, a, b in matrix_accept:
        p = rr["p"]
        bad_side = a if "err" in a else b
        clss = classify_doc(rr, p["docs"][j], bad_side, a.get("feats", {}), a.get("active", []))
        what = (f"a document is {'accepted' if 'ok' in a else 'refused'} by default options and "
                f"{'accepted' if 'ok' in b else 'refused'} under {rr['oset']['options']}")
        if not clss and rr["oset"]["options"].get("unnest_classes"):
            clss = ["unnest-classes-changes-binding"]
        for cls in clss or ["options-change-acceptance"]:
            ck.failure(cls, what, replay_of(rr, doc=p["docs"][j], base=a, variant=b))

    # ---------------- witnesses of failed validator runs, replayed through the real parser
    if witness_jobs:
        wp = []
        for rr, tc, info in witness_jobs:
            p = rr["p"]
            wdoc = witness_doc(p["schema"], tc[0], info["word"])
            info["witness"] = wdoc
            wp.append({"id": 0, "sources": p["sources"], "root": p["root"], "docs": [],
                       "option_sets": [{"name": rr["oset"]["name"], "options": rr["oset"]["options"]}],
                       "extra": {rr["oset"]["name"]: [{"class": info["class"], "doc": wdoc}]}})
        wres = run_impl("impl_c02.py", {"programs": wp}, timeout=3000, with_shims=True)
        ck.cov["evaluations"] += len(wp)
        for (rr, tc, info), wr in zip(witness_jobs, wres):
            ex = wr["runs"][0].get("extra") or [{"err": "harness", "msg": "no result", "stage": "?"}]
            dr = ex[0]
            lost = "ok" in dr and lost_children(info["witness"], dr["ok"])
            if "err" in dr or lost:
                stats["witness_confirmed"] += 1
                what = (f"{dr['err']}: {dr['msg'][:80]}" if "err" in dr else "children lost in the output")
                ck.failure(classify_pair(rr, tc, info) or "validator-rejects-metadata",
                           f"validator: class {info['class']} cannot hold a valid instance of {info['type']} ({what})",
                           replay_of(rr, impl=dr, **info))
            else:
                stats["witness_unconfirmed"] += 1
                ck.failure("validator-witness-unconfirmed",
                           f"validator rejects class {info['class']} for {info['type']} but the real parser binds the witness",
                           replay_of(rr, impl=dr, **info))

    ck.cov["distinct_nontrivial"] = len(distinct)
    ck.cov["rule"] = ("one case = (schema, schema type, compound setting) whose class metadata went through `pair_flags`; "
                      "evaluations = documents parsed+serialized by the real code under one option set")
    ck.cov["input_distribution"] = {
        "programs": len(programs), "documents_per_program": NDOC, "option_sets_per_program": 4,
        "features": feature_hist(programs), "regenerated": regen, "files": sum(len(p["sources"]) for p in programs)}
    ck.cov.update(stats)
    ck.cov["impl_seconds"] = impl_s
    ck.cov["coq_shard_seconds"] = shard_times
    ck.cov["samples"] = [{"xsd": p["sources"]["main.xsd"][:1500], "doc": p["docs"][min(2, len(p["docs"]) - 1)][:600]}
                         for p in programs[:3]]
    return ck.finish(obligations=obligations, discharged=discharged,
                     checker_cmd="make -C coq Properties/C02.vo && coqc -Q coq XV coq/Properties/C02.v (Print Assumptions); "
                                 "per program: coqc coq/Corr/c02_s*.v (vm_compute of pair_flags / doc_* predicates)",
                     trusted_base=TRUSTED_COMMON + [
                         "lxml/libxml2 XMLSchema: compiles the generated schemas, validates generated and produced documents",
                         "harness/xsd_read.py (independent reader of the XSD text; defines the supported fragment)",
                         "harness/render_standin.py via codegen_run.py (Jinja templates are not executed; ruff, click absent)",
                         "shims for click/toposort/jinja2/requests",
                         "exporters in harness/c02.py (metadata, documents; xsi:type QName values presented in Clark notation)",
                         "axioms: " + (", ".join(axioms) or "none (closed under the global context)")],
                     assumptions=["the serializer emits fields in index order, list items together (checked per document, not proved here)",
                                  "the generator pipeline (parsers, mappers, ClassContainer.process, Filters) is validated per program, not modelled"])


def lost_children(wdoc, out):
    try:
        a, b = parse_doc(wdoc), parse_doc(clean_out(out))
    except etree.XMLSyntaxError:
        return True
    return sorted(c.tag for c in a if isinstance(c.tag, str)) != sorted(c.tag for c in b if isinstance(c.tag, str))


def explained_by_validator(rr, brejecting):
    """the binding abstract refuses the document at a class whose pair the validator rejected"""
    bad_classes = {c for c, _ in brejecting}
    for (t, c) in rr.get("pairs", []):
        fl = rr.get("flags", {}).get(t)
        if c in bad_classes and fl is not None and not all(fl[:2]):
            return True
    return False


def classify_codegen(run):
    e = run["res"].get("error") or {}
    if run["res"].get("status") == "bind_error" and "Compound field contains ambiguous types" in (e.get("message") or "") \
            and run["oset"]["options"].get("unnest_classes"):
        return "unnest-classes-changes-binding"
    if e.get("type") == "ValueError" and "mutable default <class 'xsdata.models.datatype.XmlPeriod'>" in (e.get("message") or ""):
        return "period-default-unhashable-import-fails"
    if e.get("type") == "NoRootClass" and run["oset"]["options"].get("structure_style") == "namespaces" \
            and not run["p"]["root"].startswith("{") and any(f["tns"] for f in run["p"]["m"]["files"]):
        return "namespaces-style-module-shadowed-by-package"
    if e.get("type") == "CodegenError" and "Circular Dependencies Found" in (e.get("message") or "") \
            and len(run["p"]["sources"]) > 1 and run["oset"]["options"].get("structure_style", "filenames") == "filenames":
        return "cross-file-import-cycle-filenames-style"
    if e.get("type") == "ConverterError" and run["res"].get("stage") == "write" and "converter.py" in (e.get("where") or ""):
        return "field-default-value-converter-error"
    return None


def cm_names(c):
    if c[0] == "el":
        return [c[1]]
    if c[0] == "any":
        return []
    if c[0] == "occ":
        return cm_names(c[3])
    return [q for x in c[1] for q in cm_names(x)]


def has_other_wildcard(c):
    if c[0] == "any":
        return c[1][0] == "other"
    if c[0] == "occ":
        return has_other_wildcard(c[3])
    if c[0] == "el":
        return False
    return any(has_other_wildcard(x) for x in c[1])


def imports_no_namespace_schema(p):
    """a file with a target namespace imports (xs:import without namespace attribute) a schema document without one"""
    for t in p["sources"].values():
        if 'targetNamespace="' in t.split(">", 2)[1] and re.search(r"<xs:import schemaLocation=", t):
            return True
    return False


def classify_pair(rr, tc, info):
    """Narrow class of a (type, class) pair the validator rejects and the real parser confirms."""
    if imports_no_namespace_schema(rr["p"]) and "closure" in (info.get("failed") or []):
        return "imported-no-namespace-schema-gets-importer-namespace"
    t = rr["p"]["schema"]["types"][tc[0]]
    word = info.get("word") or []
    if "content" in (info.get("failed") or []) and rr["res"]["classes"][tc[1]].get("shadows_compound") \
            and rr["oset"]["options"].get("compound_fields"):
        return "derived-field-shadows-inherited-compound-field"
    if enum_default_reset(rr, tc, info):
        return "same-qname-hoisted-enumerations-default-reset"
    if same_named_element_and_attribute(rr, tc, info):
        return "same-named-element-and-attribute-anonymous-types-confused"
    if text_field_lost(rr, tc, info):
        return "simple-content-text-field-lost-to-attribute-named-value"
    if info.get("failed") == ["content"] and t["content"][0] in ("elems", "mixed"):
        names = cm_names(t["content"][1])
        dup = [q for q in set(word) if word.count(q) >= 2 and names.count(q) >= 2]
        if dup and not any(q.startswith("\x00") for q in word):
            return "repeated-element-name-single-field-capacity"
    if info.get("failed") == ["nillable_bound"]:
        decls = {d["qname"]: d for d in t["decls"]}
        if all(decls[q].get("named_simple") for q in info.get("unbound_nillables", []) if q in decls):
            return "nillable-lost-for-named-simple-type"
    if info.get("failed") == ["content"] and any(q.startswith("\x00") for q in word) \
            and t["content"][0] in ("elems", "mixed") and has_other_wildcard(t["content"][1]):
        return "wildcard-other-resolved-against-parent-namespace"
    return None


def local_of(q):
    return q.rsplit("}", 1)[-1]


def has_enum(st):
    if not isinstance(st, list):
        return False
    if st and st[0] == "atom":
        return bool(st[2])
    return any(has_enum(x) for x in st[1:]) or any(has_enum(y) for x in st[1:] if isinstance(x, list) for y in x)


def enum_default_reset(rr, tc, info):
    """an attribute with an anonymous enumeration type AND a default value is bound as plain str, and another complex type of
    the schema has an enumeration-typed attribute of the same name (hoisted enumerations with the same qname)"""
    types = rr["p"]["schema"]["types"]
    t = types[tc[0]]
    cv = rr["res"]["classes"][tc[1]]
    failed = set(info.get("failed") or [])
    if not failed or not failed <= {"attrs", "attr_types"}:
        return False
    for a in t["attrs"]:
        if not (has_enum(a["stype"]) and a.get("value") is not None):
            continue
        var = [v for v in cv["attributes"] if v["qname"] == a["qname"]]
        if not var or [x.get("py") for x in var[0]["types"]] != ["str"]:
            continue
        if any(T is not t and local_of(b["qname"]) == local_of(a["qname"]) and has_enum(b["stype"]) and b["stype"] != a["stype"]
               for T in types for b in T["attrs"]):
            return True
    return False


def same_named_element_and_attribute(rr, tc, info):
    """a local element of anonymous complex type and an attribute of (anonymous) enumeration type with the same local
    name in one complex type: the two inner types share their qname, one field is typed by the other's inner type"""
    types = rr["p"]["schema"]["types"]
    t = types[tc[0]]
    failed = set(info.get("failed") or [])
    if not failed or not failed <= {"closure", "attrs", "attr_types", "content"}:
        return False
    shared = {local_of(d["qname"]) for d in t["decls"] if types[d["type"]]["name"] is None
              and any(local_of(a["qname"]) == local_of(d["qname"]) and has_enum(a["stype"]) for a in t["attrs"])}
    if not shared:
        return False
    if "closure" in failed and not {local_of(q) for q in info.get("open_decls") or []} <= shared:
        return False
    return True


def text_field_lost(rr, tc, info):
    """simple content over a NAMED, non-enumeration simple type + an attribute called `value`: the class has no text field"""
    t = rr["p"]["schema"]["types"][tc[0]]
    cv = rr["res"]["classes"][tc[1]]
    if "text_type" not in (info.get("failed") or []) or t["content"][0] != "simple" or not t.get("simple_base_named"):
        return False
    st = t["content"][1]
    if st[0] == "atom" and st[2]:
        return False                                     # enumerations keep their text field
    return any(local_of(a["qname"]) == "value" for a in t["attrs"]) and not any(v["kind"] == "text" for v in cv["elements"] + cv["attributes"]) \
        and not any(v["kind"] == "text" for v in cv.get("texts", []))


PAIR_DOC_CLASSES = ("simple-content-text-field-lost-to-attribute-named-value",
                    "same-named-element-and-attribute-anonymous-types-confused")


def pair_finding_at(rr, where):
    """the infoset difference lies at / below an element whose type's pair the validator rejected for one of the
    findings that lose data silently (text field lost, field typed by the wrong inner type)"""
    segs = re.findall(r"(?:\{[^}]*\})?[^/{}]+", where)           # Clark names contain slashes
    types = rr["p"]["schema"]["types"]
    by_type = {}
    for tc, info in rr.get("pair_info", {}).values():
        c = classify_pair(rr, tc, info)
        if c in PAIR_DOC_CLASSES:
            by_type[tc[0]] = c
    decls = [d for T in types for d in T["decls"]] + list(rr["p"]["schema"]["elements"].values())
    for seg in reversed(segs):
        for d in decls:
            if d["qname"] == seg and d["type"] in by_type:
                return by_type[d["type"]]
    return None


def feature_hist(programs):
    out = {}
    for p in programs:
        for f in p["m"]["features"]:
            out[f] = out.get(f, 0) + 1
    return out
