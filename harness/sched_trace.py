"""A line-level scheduler for Python threads, built on sys.settrace (no source hooks).

Every worker thread installs a trace function for itself.  Inside the watched
source files the thread *parks* immediately before each **marked** line — a line of
a given function whose stripped text equals a given string — and waits until the
controller releases it.  A release lets the thread execute that line and run on
until it is about to execute its next marked line (or until it finishes).  At most
one worker runs at any time, so the controller decides the interleaving of the
marked lines completely; everything between two marked lines of a thread executes
atomically with the first of them.

Marked lines are located by *text* (fail closed): `locate(path, marks)` raises
`MarkError` unless every (function, text) occurs exactly once inside that function.

Used by harness/impl_c19.py under the implementation interpreter.
"""
import ast
import sys
import threading
import time


class MarkError(Exception):
    pass


class SchedulerTimeout(Exception):
    pass


def locate(path, marks):
    """marks: {label: (function name, stripped line text)} -> {(function name, lineno): label}.
    Several labels may share a (function, text) pair (first one wins in the table)."""
    with open(path, encoding="utf-8") as f:
        src = f.read()
    lines = src.splitlines()
    tree = ast.parse(src)
    funcs = {}
    for node in ast.walk(tree):
        if isinstance(node, (ast.FunctionDef, ast.AsyncFunctionDef)):
            funcs.setdefault(node.name, []).append((node.lineno, node.end_lineno))
    table = {}
    for label, (fn, text) in marks.items():
        if fn not in funcs or len(funcs[fn]) != 1:
            raise MarkError(f"function {fn} not found exactly once in {path}")
        lo, hi = funcs[fn][0]
        hits = [n for n in range(lo, hi + 1) if lines[n - 1].strip() == text]
        if len(hits) != 1:
            raise MarkError(f"line {text!r} found {len(hits)} times in {fn} ({path}); expected exactly once")
        table.setdefault((fn, hits[0]), label)
    return table


def locate_all(path, exclude=("__init__",)):
    """Every line of every function of a file (except the excluded function names) as a yield
    point: {(function name, lineno): lineno}.  Lines that hold no code never produce an event."""
    with open(path, encoding="utf-8") as f:
        tree = ast.parse(f.read())
    table = {}
    for node in ast.walk(tree):
        if isinstance(node, (ast.FunctionDef, ast.AsyncFunctionDef)) and node.name not in exclude:
            for n in range(node.lineno + 1, node.end_lineno + 1):
                table[(node.name, n)] = n
    return table


MUTATING_METHODS = {"append", "add", "update", "setdefault", "pop", "clear", "extend", "insert", "remove", "sort",
                    "popitem", "discard", "reverse"}


def _is_self_attr(node):
    """self.x, self.x.y, ... (an attribute chain rooted at `self`)"""
    while isinstance(node, ast.Attribute):
        node = node.value
        if isinstance(node, ast.Name) and node.id == "self":
            return True
    return False


def _store_lines(fn_node):
    """line numbers of the statements of a function that store into state reachable from `self`"""
    out = set()
    for sub in ast.walk(fn_node):
        targets = []
        if isinstance(sub, ast.Assign):
            targets = sub.targets
        elif isinstance(sub, (ast.AugAssign, ast.AnnAssign)):
            targets = [sub.target]
        elif isinstance(sub, ast.Delete):
            targets = sub.targets
        for t in targets:
            for el in (t.elts if isinstance(t, ast.Tuple) else [t]):
                if _is_self_attr(el) or (isinstance(el, ast.Subscript) and _is_self_attr(el.value)):
                    out.add(sub.lineno)
        if (isinstance(sub, ast.Call) and isinstance(sub.func, ast.Attribute) and sub.func.attr in MUTATING_METHODS
                and _is_self_attr(sub.func.value)):
            out.add(sub.lineno)
    return out


def locate_stores(path, exclude=("__init__", "__post_init__")):
    """{(function, lineno): "S" | "L"} for every line of every function of the file: "S" = a statement that
    stores into state reachable from `self` (outside constructors).  With LineScheduler(store_window=True) a
    thread parks immediately before every "S" line and at the first line it reaches after one, i.e. around every
    write to an object that may be shared.  Returns (table, [(function, line text)] of the store statements)."""
    with open(path, encoding="utf-8") as f:
        src = f.read()
    lines = src.splitlines()
    tree = ast.parse(src)
    table, stores = {}, []
    for node in ast.walk(tree):
        if not isinstance(node, (ast.FunctionDef, ast.AsyncFunctionDef)):
            continue
        st = set() if node.name in exclude else _store_lines(node)
        for n in range(node.lineno + 1, node.end_lineno + 1):
            if (node.name, n) not in table or n in st:
                table[(node.name, n)] = "S" if n in st else "L"
        stores += [(node.name, lines[n - 1].strip()) for n in sorted(st)]
    return table, stores


def locate_mutators(path, exclude=("__init__",)):
    """Yield points on every line of the methods that may mutate the object they belong to after construction:
    an assignment to `self.x` / `self.x[...]`, or a mutating method call on `self.x`.  Such a method of an
    object shared through the context (XmlMeta, XmlVar) holds lazily built state.
    Returns ({(function name, lineno): lineno}, [function names])."""
    with open(path, encoding="utf-8") as f:
        tree = ast.parse(f.read())
    table, names = {}, []
    for node in ast.walk(tree):
        if not isinstance(node, (ast.FunctionDef, ast.AsyncFunctionDef)) or node.name in exclude:
            continue
        hit = False
        for sub in ast.walk(node):
            targets = []
            if isinstance(sub, ast.Assign):
                targets = sub.targets
            elif isinstance(sub, (ast.AugAssign, ast.AnnAssign)):
                targets = [sub.target]
            for t in targets:
                for el in (t.elts if isinstance(t, ast.Tuple) else [t]):
                    if _is_self_attr(el) or (isinstance(el, ast.Subscript) and _is_self_attr(el.value)):
                        hit = True
            if (isinstance(sub, ast.Call) and isinstance(sub.func, ast.Attribute) and sub.func.attr in MUTATING_METHODS
                    and _is_self_attr(sub.func.value)):
                hit = True
        if hit:
            names.append(node.name)
            for n in range(node.lineno + 1, node.end_lineno + 1):
                table[(node.name, n)] = n
    return table, names


class LineScheduler:
    """Controller + per-thread tracers.  files: {filename: {(function, lineno): label}}."""

    def __init__(self, files, step_timeout=10.0, store_window=False, lazy=False):
        self.files = files
        self.lazy = lazy
        self.step_timeout = step_timeout
        self.store_window = store_window      # tables hold "S"/"L": park before "S" lines and right after them
        self.after = {}
        self.cv = threading.Condition()
        self.state = {}       # worker index -> "running" | ("parked", label) | "done"
        self.go = {}          # worker index -> bool (released)
        self.results = {}
        self.log = []         # (worker, label) in execution order
        self.threads = {}
        self.aborted = False

    # ---- worker side
    def _park(self, i, label):
        with self.cv:
            self.state[i] = ("parked", label)
            self.go[i] = False
            self.cv.notify_all()
            while not self.go[i]:
                if self.aborted:
                    raise SystemExit
                self.cv.wait(0.2)
            self.state[i] = "running"
            self.log.append((i, label))

    def _tracer(self, i):
        def make_local(table):
            def loc(frame, event, arg):
                if event == "line":
                    label = table.get((frame.f_code.co_name, frame.f_lineno))
                    if label is not None:
                        if not self.store_window:
                            self._park(i, label)
                        elif label == "S":
                            self._park(i, frame.f_lineno)
                            self.after[i] = frame          # park again at the next line of THIS frame: calls made
                        elif self.after.get(i) is True or self.after.get(i) is frame:   # by the statement run first
                            self.after[i] = False
                            self._park(i, -frame.f_lineno)
                elif event == "return" and self.store_window and self.after.get(i) is frame:
                    self.after[i] = True                   # the store was the last statement: next line anywhere
                return loc
            return loc

        locals_ = {fn: make_local(t) for fn, t in self.files.items()}

        def glob(frame, event, arg):
            if event == "call":
                return locals_.get(frame.f_code.co_filename)
            return None

        return glob

    def _worker(self, i, fn):
        sys.settrace(self._tracer(i))
        try:
            r = fn()
        except SystemExit:
            r = {"err": "ABORTED", "msg": ""}
        except BaseException as e:  # noqa: BLE001 - fn is expected to catch its own exceptions
            r = {"err": type(e).__name__, "msg": "escaped the worker"}
        finally:
            sys.settrace(None)
        with self.cv:
            self.results[i] = r
            self.state[i] = "done"
            self.cv.notify_all()

    # ---- controller side
    def _wait_quiet(self):
        """until no worker is running"""
        deadline = time.time() + self.step_timeout
        with self.cv:
            while any(s == "running" for s in self.state.values()):
                left = deadline - time.time()
                if left <= 0:
                    self.aborted = True
                    self.cv.notify_all()
                    raise SchedulerTimeout(f"a released thread neither parked nor finished: {self.state}")
                self.cv.wait(min(left, 0.2))

    def _start_one(self, i, fn):
        with self.cv:
            self.state[i] = "running"
            self.go[i] = False
        t = threading.Thread(target=self._worker, args=(i, fn), daemon=True)
        self.threads[i] = t
        t.start()
        self._wait_quiet()       # one at a time: the start-up of a thread is not interleaved

    def start(self, fns):
        """Eager start (model replay): every worker runs up to its first yield point.  With lazy=True (model-free
        modes) a worker is only started by its first release, so that a thread can begin its call after another
        one has already changed shared state."""
        self.fns = list(fns)
        if self.lazy:
            for i in range(len(fns)):
                self.state[i] = "new"
            return
        for i, fn in enumerate(fns):
            self._start_one(i, fn)

    def release(self, i):
        """Let worker i execute one marked line (and everything up to its next one).
        Returns False if it had already finished."""
        if self.state.get(i) == "new":
            self._start_one(i, self.fns[i])
            return True
        with self.cv:
            if self.state.get(i) == "done" or i not in self.state:
                return False
            self.state[i] = "running"
            self.go[i] = True
            self.cv.notify_all()
        self._wait_quiet()
        return True

    def run_random(self, fns, rng, max_steps=50000):
        """Forced yield points without a model: at every step a random unfinished worker is released for a
        short burst.  Returns (results by index, number of steps)."""
        self.start(fns)
        steps = 0
        while steps < max_steps:
            alive = [i for i in range(len(fns)) if self.state.get(i) != "done"]
            if not alive:
                break
            i = rng.choice(alive)
            for _ in range(rng.choice((1, 1, 1, 2, 3, 5))):
                if not self.release(i):
                    break
                steps += 1
        for i in range(len(fns)):
            while self.state.get(i) != "done":
                self.release(i)
                steps += 1
        for t in self.threads.values():
            t.join(self.step_timeout)
        return [self.results.get(i) for i in range(len(fns))], steps

    def run(self, fns, schedule):
        """Run the workers under `schedule` (worker indices); afterwards every worker is run
        to completion in index order.  Returns (results by index, log)."""
        self.start(fns)
        for i in schedule:
            self.release(i)
        for i in range(len(fns)):
            while self.state.get(i) != "done":
                self.release(i)
        for t in self.threads.values():
            t.join(self.step_timeout)
        return [self.results.get(i) for i in range(len(fns))], list(self.log)
