"""C09 — parsing depends only on the infoset: the parsed object is invariant under
meaning-preserving rewrites of the document (harness/xmlrewrite.py), for both handlers.

Oracle on the real code; theorems over Model/Parser.v in Properties/C09.v (when built)."""
import concurrent.futures as cf
import json
import os

import common
import coq_robust
from common import Check, run_impl, standard_proof_step, TRUSTED_COMMON, ROOT
import genmodels as G

IMPORTS = ("From XV Require Import Base.Str Model.Bind Model.Parser Model.ParserCorr Model.Reader Model.ReaderCorr "
           "Model.ParserInvCorr Proofs.ParserInvWs Proofs.ParserInvAttrs Proofs.ParserCtx Proofs.ParserCtxGuard.")
FAMILIES = ["f3", "ws", "attrs", "redecl", "rename", "rename_qname", "wrapper_decl", "list_ws", "xinclude"]
GUARD_DEFS = """
Definition ws_guard (x : c09_case) : bool :=
  let '(cfg, t, u, root, e1, e2, _, _) := x in
  ws_variant_n (length e1) cfg (conv_of_table t) u root init_state e1 e2.
Definition rename_guard (x : c09_case) : bool :=
  let '(_, t, u, _, e1, e2, _, _) := x in
  no_xsi_type_attr u
  && forallb2 (renamedb (all_prefixes e1 ++ all_prefixes e2) (conv_of_table t)) (strip_ns e1) (strip_ns e2).
Definition attrs_guard (x : c09_case) : bool :=
  let '(_, _, u, _, _, _, _, _) := x in universe_ok u && perm_guard x.
(* Python equality of the two observed objects: dicts compare as finite maps (value_eqb_dict is proved sound
   w.r.t. value_equiv in Proofs/ParserInvAttrs.v); converter warnings as multisets *)
Definition obs_same_dict (x : c09_case) : bool :=
  let '(_, _, _, _, _, _, o1, o2) := x in
  match o1, o2 with
  | Ok v ws, Ok v' ws' => value_eqb_dict v v' && warnings_permb (filter is_conv_warning ws) (filter is_conv_warning ws')
  | Err k, Err k' => errkind_eqb k k'
  | _, _ => false
  end.
"""


def guard_jobs(ck):
    r = ck.rng
    jobs = [{"id": 0, "seed": r.randrange(1 << 30), "model": {"c08": "any_attrs"}},
            {"id": 1, "seed": r.randrange(1 << 30), "model": {"c08": "scoped_qname"}, "n": ck.n(16, 150)},
            {"id": 2, "seed": r.randrange(1 << 30), "model": {"list_ws": True}, "n": ck.n(10, 100)},
            {"id": 3, "seed": r.randrange(1 << 30), "model": {"xinclude": True}, "n": ck.n(8, 60)},
            {"id": 4, "seed": r.randrange(1 << 30), "model": {"wrapped_qname": True}, "n": ck.n(12, 120)}]
    for _ in range(ck.n(30, 300)):
        k = r.random()
        sl = ["F1"] if k < 0.35 else (["F1", "F2"] if k < 0.6 else ["F1", "F2", "F3"])
        prims = [p for p in G.PRIMS if p != "QName"]
        jobs.append({"id": len(jobs), "seed": r.randrange(1 << 30), "model": {"gen": {"slices": sl, "prims": prims}}, "n": 2})
    return jobs


def run_guard_jobs(jobs, chunk=8, timeout=1500):
    chunks = [c for c in (jobs[i::chunk] for i in range(chunk)) if c]

    def one(c):
        try:
            return run_impl("impl_c09.py", {"jobs": c}, timeout=timeout)
        except Exception as e:  # noqa
            return {"dt_table": None, "jobs": [{"id": j["id"], "seed": j["seed"], "model": j["model"], "cases": [],
                                                "crashed": f"driver process failed: {e!r}"[:3000]} for j in c]}
    with cf.ThreadPoolExecutor(max_workers=len(chunks) or 1) as ex:
        outs = list(ex.map(one, chunks))
    tables = [o["dt_table"] for o in outs if o.get("dt_table")]
    res = {"dt_table": tables[0] if tables else "(@nil (qname * option (ptype * option str * option ptype)))", "jobs": []}
    for o in outs:
        res["jobs"] += o["jobs"]
    res["jobs"].sort(key=lambda j: j["id"])
    return res


def guard_check(ck, fut):
    """the hypotheses of the C09 theorems evaluated IN COQ on (document, rewritten document) pairs of real recorded
    event streams, against the observed outcomes; the model's verdict on both streams (correspondence)"""
    res = fut.result()
    defs = [f"Definition dt_table := {res['dt_table']}."]
    terms, meta, groups = [], [], []
    stats = {"jobs": len(res["jobs"]), "unsupported": 0, "by_kind": {}}
    for j in res["jobs"]:
        if j.get("crashed"):
            ck.failure("harness-driver-crashed", f"impl_c09.py crashed on {j['model']} seed {j['seed']}: {j['crashed'][-400:]}",
                       {"job": {"seed": j["seed"], "model": j["model"]}})
            continue
        for x in j.get("xinclude", []):
            st = stats["by_kind"].setdefault("xinclude", {"pairs": 0, "repeated_href": 0, "annotated_included": 0, "outcomes_differ": 0})
            st["pairs"] += 1
            st["repeated_href"] += bool(x.get("repeated_href"))
            st["annotated_included"] += bool(x.get("annotated_included"))
            if x.get("why"):
                st["outcomes_differ"] += 1
                ck.failure(f"rewrite-xinclude-{x['handler']}", f"document split with XInclude ({x['handler']} handler, {x['source']}): {x['why']}; "
                                                              f"{x['doc'][:300]!r}, included files {x.get('included')!r}, expected {x['expected']}", {"job": {"seed": j["seed"]}, "case": x})
        if j.get("skipped") or not j.get("universe") or not j.get("conv"):
            continue
        gterms = []
        groups.append((f"Definition u_{j['id']} : universe := {j['universe']}.\n"
                       f"Definition tbl_{j['id']} : conv_table := {j['conv']}.\n"
                       f"Definition nd_{j['id']} : list (cls * list str) := {j['nodefault']}.", gterms))
        for c in j["cases"]:
            if c.get("term"):
                terms.append(c["term"])
                gterms.append(c["term"])
                meta.append((j, c))
            else:
                stats["unsupported"] += 1
    checks = {k: k for k in ["model_agrees", "model_same", "obs_same", "obs_same_dict", "ws_guard", "maps_guard", "attrs_guard", "rename_guard"]}
    bad, cstats = coq_robust.matrix_grouped(ck, "c09_guard", IMPORTS, "\n".join(defs) + GUARD_DEFS, groups, "c09_case", checks, targets=["Model/ParserInvCorr.vo", "Proofs/ParserInvWs.vo", "Proofs/ParserInvAttrs.vo", "Proofs/ParserCtxGuard.vo"])
    stats["coq_eval"] = cstats
    badsets = {k: set(v) for k, v in bad.items()}
    guard_of = {"ws": "ws_guard", "redecl": "maps_guard", "attrs": "attrs_guard", "rename": "rename_guard"}
    for i, (j, c) in enumerate(meta):
        kind = c["kind"]
        st = stats["by_kind"].setdefault(kind, {"pairs": 0, "guard_true": 0, "streams_differ": 0, "outcomes_differ": 0})
        st["pairs"] += 1
        st["streams_differ"] += not c.get("same_events")
        rp = {"job": {"seed": j["seed"], "model": j["model"]}, "source": j.get("source"), "doc": c["doc"], "doc2": c["doc2"],
              "kind": kind, "summary": c["summary"]}
        if i in badsets["model_agrees"]:
            ck.failure("corr-parser-c09", f"Model/Parser.v and the implementation disagree on a ({kind}) stream pair: {c['summary']}", rp)
        same = (i not in badsets["obs_same_dict"]) if kind == "attrs" else (i not in badsets["obs_same"])
        st["outcomes_differ"] += not same
        if kind == "f3":
            if not same:
                cls = "rewrite-prefix-renaming-any-attribute" if i in badsets["model_same"] else "rewrite-prefix-renaming-unexplained"
                ck.failure(cls, f"renaming / dropping a namespace prefix changes the parsed object: {c['doc']!r} vs {c['doc2']!r}: "
                                f"{c['summary']['a']['value']} vs {c['summary']['b']['value']}", rp)
            continue
        if kind == "list_ws":
            if not same:
                ck.failure("rewrite-list_ws", f"other whitespace between the items of list values changes the parsed object: {c['doc'][:300]!r} vs "
                                              f"{c['doc2'][:300]!r}: {c['summary']}", rp)
            continue
        if kind == "rename_qname":
            # QName-typed content re-spelled with the renamed prefixes: no event-level theorem (C09_qname_respelling_partial); oracle
            if not same:
                ck.failure("rewrite-rename_qname", f"renaming every declared prefix (declarations and QName / xsi:type uses together) changes "
                                                   f"the parsed object: {c['doc'][:300]!r} vs {c['doc2'][:300]!r}: {c['summary']}", rp)
            continue
        if kind == "wrapper_decl":
            # declarations carried by a wrapper element (WrapperNode): the same document with every prefix renamed, and with
            # the wrapper's declarations written on each wrapped item instead; QName content re-spelled: oracle + model_agrees
            if not same:
                ck.failure("rewrite-wrapper_decl", f"namespace declarations on a wrapper element ({c.get('what')}): the parsed object changes "
                                                   f"with the spelling: {c['doc'][:400]!r} vs {c['doc2'][:400]!r}: {c['summary']}", rp)
            continue
        g = i not in badsets[guard_of[kind]]
        st["guard_true"] += g
        if not same:
            cls = f"theorem-contradicted-{kind}" if g else f"rewrite-{kind}-outside-guard"
            ck.failure(cls, f"({kind}) rewrite changes the parsed object (hypothesis of the theorem {'holds' if g else 'does not hold'} on the "
                            f"recorded streams): {c['summary']}", rp)
        elif not g and kind in ("ws", "redecl", "attrs", "rename"):
            ck.failure(f"guard-false-on-{kind}-rewrite", f"the hypothesis of the ({kind}) theorem does not hold on a rewrite the oracle applies: "
                                                         f"{c['doc'][:200]!r} vs {c['doc2'][:200]!r}", rp)
    stats["pairs"] = len(terms)
    # a family of the generator that produced no judged case is a broken check, not a pass
    for fam in FAMILIES:
        if stats["by_kind"].get(fam, {}).get("pairs", 0) == 0:
            ck.broken_obligation(f"guard-check: family {fam} produced no judged case", json.dumps(stats)[:2000])
    if stats["by_kind"].get("xinclude", {}).get("repeated_href", 0) == 0:
        ck.broken_obligation("guard-check: no XInclude document includes one file twice", json.dumps(stats)[:2000])
    if stats["by_kind"].get("xinclude", {}).get("annotated_included", 0) == 0:
        ck.broken_obligation("guard-check: no XInclude document includes a file with comments / processing instructions", json.dumps(stats)[:2000])
    return stats

NOQ = [p for p in G.PRIMS if p != "QName"]
NONSTR = [p for p in G.PRIMS if p not in ("QName", "str", "enum")]


def run(ck: Check):
    ck.level = "proof"
    r = ck.rng
    obligations, discharged, axioms = 0, 0, []
    pool = cf.ThreadPoolExecutor(max_workers=1)
    fut = pool.submit(run_guard_jobs, guard_jobs(ck))          # the implementation runs while the proofs are checked
    extra = ["Model/ParserInvCorr.vo", "Proofs/ParserInvWs.vo", "Proofs/ParserInvAttrs.vo", "Proofs/ParserCtxGuard.vo"]
    if os.path.exists(os.path.join(ROOT, "coq", "Properties", "C09.v")):
        obligations, discharged, axioms = standard_proof_step(ck, extra_targets=extra)
    else:
        common.make(extra)
    jobs = []
    for k in range(ck.n(300, 3000)):
        mode = r.choice(["general", "general", "element_only", "value_ws"])
        if mode == "general":
            m = G.gen_model(r, slices=r.choice([("F1",), ("F1", "F2"), ("F1", "F3"), ("F1", "F2", "F3")]), prims=NOQ,
                            uniform_ns=r.random() < 0.5)
        elif mode == "element_only":
            m = G.gen_model(r, slices=r.choice([("F1",), ("F1", "FA"), ("F1", "F3", "FA")]), prims=NOQ)
        else:
            m = G.gen_model(r, slices=("F1",), prims=NONSTR)
        insts = [G.gen_instance(r, m, m["root"]) for _ in range(3)]
        cases = [{"i": i, "op": "rewrite", "mode": mode, "seed": r.randrange(1 << 30), "n": 4} for i in range(len(insts))]
        jobs.append({"src": G.render_source(m), "name": f"gm_{ck.seed}_{k}", "root": m["root"], "instances": insts, "cases": cases,
                     "model": m})
    out = []
    wire = [{"oracle": True, "src": j["src"], "name": j["name"], "instances": j["instances"], "cases": j["cases"]} for j in jobs]
    chunks = [wire[i::8] for i in range(8)]
    with cf.ThreadPoolExecutor(max_workers=8) as ex:
        parts = list(ex.map(lambda c: run_impl("impl_c09.py", {"jobs": c}, timeout=1800)["jobs"] if c else [], chunks))
    out = [None] * len(wire)
    for k, part in enumerate(parts):
        for idx, o in zip(range(k, len(wire), 8), part):
            out[idx] = o
    n = 0
    stats = {}
    for job, o in zip(jobs, out):
        if "load_error" in o:
            ck.failure("harness-model-load", o["load_error"], {"src": job["src"]})
            continue
        for case, res in zip(job["cases"], o["results"]):
            if "exc" in res:
                ck.failure("harness-exception-" + res["exc"], res.get("msg", "") + res.get("tb", ""), {"src": job["src"], "case": case})
                continue
            for tr in res["trials"]:
                n += 1
                key = "+".join(sorted(tr["kinds"])) or "none"
                for k in tr["kinds"]:
                    stats[k] = stats.get(k, 0) + 1
                if tr.get("infoset_changed"):
                    ck.failure("harness-rewrite-changed-infoset", f"rewriter bug: {tr['kinds']}", {"src": job["src"], "case": case, "trial": tr})
                elif not tr["ok"]:
                    cls = "rewrite-" + ("-".join(sorted(tr["kinds"])) if len(tr["kinds"]) <= 2 else "multi") + "-" + tr["handler"]
                    ck.failure(cls, f"parse changed under rewrite {tr['kinds']} with the {tr['handler']} handler: {tr.get('why')}",
                               {"model_src": job["src"], "instance": job["instances"][case["i"]], "case": case, "trial": tr})
    try:
        gstats = guard_check(ck, fut)
    except common.BuildError as e:
        ck.broken_obligation("guard-check:" + e.target, e.log)
        gstats = {"pairs": 0}
    ck.cov["evaluations"] = n + gstats["pairs"] + gstats.get("by_kind", {}).get("xinclude", {}).get("pairs", 0)
    ck.cov["distinct_nontrivial"] = n + gstats["pairs"]
    ck.cov["rule"] = ("oracle: one evaluation = (model, instance, composition of rewrite kinds, handler); guard check: one evaluation = "
                      "(model, document, rewritten document): both recorded event streams, the theorem hypothesis computed in Coq, the "
                      "model's outcome on both streams and the two observed outcomes")
    ck.cov["input_distribution"] = dict(stats, guard_check=gstats)
    ck.cov["samples"] = [{"case": jobs[0]["cases"][0]}]
    return ck.finish(obligations=obligations, discharged=discharged,
                     checker_cmd="make -C coq Properties/C09.vo && coqc -Q coq XV coq/Properties/C09.v (Print Assumptions)",
                     trusted_base=TRUSTED_COMMON + [
                         "everything below the infoset (comments, PIs, CDATA, character references, encodings, XInclude, attribute-value "
                         "normalisation) is the tokenisers' job: oracle only (harness/xmlrewrite.py rewrites through both real handlers)",
                         "Model/Parser.v is tied to NodeParser by the parser correspondence of C10/C15 and by model_agrees here",
                         "primitive converter: recorded table of the real run in the case files; Section hypotheses in the theorems "
                         "(conv_lookup_only, reads_alike) are discharged for property C05's converter models",
                         "axioms: " + (", ".join(axioms) or "none (all theorems closed under the global context)")],
                     assumptions=["element and attribute names in parser events are non-empty; attribute names of one element are unique",
                                  "one XmlMeta per class (metadata cache keyed by class: property C14's subject)"])
