"""C09 — parsing depends only on the infoset: the parsed object is invariant under
meaning-preserving rewrites of the document (harness/xmlrewrite.py), for both handlers.

Oracle on the real code; theorems over Model/Parser.v in Properties/C09.v (when built)."""
import os

from common import Check, run_impl, standard_proof_step, TRUSTED_COMMON, ROOT
import genmodels as G

NOQ = [p for p in G.PRIMS if p != "QName"]
NONSTR = [p for p in G.PRIMS if p not in ("QName", "str", "enum")]


def run(ck: Check):
    ck.level = "proof"
    r = ck.rng
    obligations, discharged, axioms = 0, 0, []
    if os.path.exists(os.path.join(ROOT, "coq", "Properties", "C09.v")):
        obligations, discharged, axioms = standard_proof_step(ck)
    jobs = []
    for k in range(ck.n(300, 3000)):
        mode = r.choice(["general", "general", "element_only", "value_ws"])
        if mode == "general":
            m = G.gen_model(r, slices=r.choice([("F1",), ("F1", "F2"), ("F1", "F3"), ("F1", "F2", "F3")]), prims=NOQ,
                            uniform_ns=r.random() < 0.5)
        elif mode == "element_only":
            m = G.gen_model(r, slices=r.choice([("F1",), ("F1", "FA"), ("F1", "F3", "FA")]), prims=NOQ)
        else:
            m = G.gen_model(r, slices=("F1",), prims=NONSTR)
        insts = [G.gen_instance(r, m, m["root"]) for _ in range(3)]
        cases = [{"i": i, "op": "rewrite", "mode": mode, "seed": r.randrange(1 << 30), "n": 4} for i in range(len(insts))]
        jobs.append({"src": G.render_source(m), "name": f"gm_{ck.seed}_{k}", "root": m["root"], "instances": insts, "cases": cases,
                     "model": m})
    out = []
    for i in range(0, len(jobs), 20):
        out += run_impl("impl_binding.py", jobs[i:i + 20], timeout=1800)
    n = 0
    stats = {}
    for job, o in zip(jobs, out):
        if "load_error" in o:
            ck.failure("harness-model-load", o["load_error"], {"src": job["src"]})
            continue
        for case, res in zip(job["cases"], o["results"]):
            if "exc" in res:
                ck.failure("harness-exception-" + res["exc"], res.get("msg", "") + res.get("tb", ""), {"src": job["src"], "case": case})
                continue
            for tr in res["trials"]:
                n += 1
                key = "+".join(sorted(tr["kinds"])) or "none"
                for k in tr["kinds"]:
                    stats[k] = stats.get(k, 0) + 1
                if tr.get("infoset_changed"):
                    ck.failure("harness-rewrite-changed-infoset", f"rewriter bug: {tr['kinds']}", {"src": job["src"], "case": case, "trial": tr})
                elif not tr["ok"]:
                    cls = "rewrite-" + ("-".join(sorted(tr["kinds"])) if len(tr["kinds"]) <= 2 else "multi") + "-" + tr["handler"]
                    ck.failure(cls, f"parse changed under rewrite {tr['kinds']} with the {tr['handler']} handler: {tr.get('why')}",
                               {"model_src": job["src"], "instance": job["instances"][case["i"]], "case": case, "trial": tr})
    ck.cov["evaluations"] = n
    ck.cov["distinct_nontrivial"] = n
    ck.cov["rule"] = "each evaluation = one (model, instance, composition of rewrite kinds, handler); counts per rewrite kind in input_distribution"
    ck.cov["input_distribution"] = stats
    ck.cov["samples"] = [{"case": jobs[0]["cases"][0]}]
    return ck.finish(obligations=obligations, discharged=discharged, checker_cmd="coqc", trusted_base=TRUSTED_COMMON)
