"""C07 — the code generator always produces importable, bindable code.

Deciding artefact: theorems of coq/Properties/C07.v over Model/Safe.v (text.py, the naming
filters) and Model/Rename.v (duplicate attr / class renaming).
Tie: Gen/SafeTables.v regenerated from /repo and from the interpreter + differential
correspondence of every modelled function on hostile strings / attr lists / class lists.
Search: (a) Spec/PyIdent.v and uniqueness judged in Coq on the implementation's answers,
(b) the REAL generator pipeline (harness/codegen_run.py) on generated schema sets, DTDs and
XML/JSON samples over a hostile name alphabet x a sampled option matrix, rendered with the
stand-in for the Jinja templates, imported, bound (XmlContext.build_recursive) and
instantiated.  Importability is therefore checked differentially through a stand-in
renderer: Jinja, the template text itself, ruff and the click CLI are not covered.
"""
import hashlib
import json
import keyword
import os
import re
import time

from common import Check, coq_bad_indices, coq_eval, run_impl, standard_proof_step, TRUSTED_COMMON, ROOT, REPO
from coqterm import cstr, cbool, copt, clist
import codegen_run
import c07_gen

IMPORTS = "From XV Require Import Base.Str Gen.SafeTables Model.Safe Model.Rename Model.SafeCorr Spec.PyIdent."

CASES = ["originalCase", "pascalCase", "camelCase", "snakeCase", "screamingSnakeCase", "mixedCase", "mixedSnakeCase",
         "mixedPascalCase"]
SPLIT_CASES = [c for c in CASES if c != "originalCase"]
TEXT_FN = ["split_words", "alnum", "snake_case", "pascal_case", "camel_case", "mixed_case", "mixed_snake_case",
           "mixed_pascal_case", "screaming_snake_case", "kebab_case", "original_case", "capitalize", "clean_uri",
           "is_reserved"]
FILTER_FN = ["class_name", "field_name", "constant_name", "module_name", "package_name"]
DEFAULT_CONV = {"class_name": ("pascalCase", "type"), "field_name": ("snakeCase", "value"),
                "constant_name": ("screamingSnakeCase", "value"), "module_name": ("snakeCase", "mod"),
                "package_name": ("snakeCase", "pkg")}
CONV_KEYS = ["class_name", "field_name", "constant_name", "module_name", "package_name"]
TAGS = ["Element", "Attribute", "AnyAttribute", "Any", "Choice", "Enumeration", "Extension", "Restriction"]

STOP_EXTRA = ["Any", "Decimal", "Enum", "False", "Meta", "None", "Optional", "QName", "True", "Union", "bool", "dict",
              "field", "Field", "float", "int", "list", "object", "self", "str", "type", "validate"]
SOFT = ["match", "case", "_", "type"]
NONASCII = ["é", "Ω", "ß", "ǅ", "١", "²", "·", "͸", "中", "ı", "İ", "ﬁ", "𝐀", "ª", "ͅ", "५", "ↂ", "‍"]
PUNCT = ["-", "_", ".", ":", "/", " ", "#", "__", "-_", "\n", "\t", "{", "}", "$", "@", "'", "+"]
RUNS = ["ABCdef", "aBC", "HTTPServer2x", "x1Y2z", "ABC1def", "abcDEF", "A", "z", "a1", "1a", "9", "007", "Zz9Zz", "camelCase",
        "PascalCase", "snake_case", "SCREAMING_SNAKE", "kebab-case", "value", "type", "mod", "pkg", "minus", "abstract",
        "attribute", "Attribute", "Element", "element"]
NUMS = ["-1", "-1.5", "-.5", "-١", "-1\n", "-", "-1.", "-1.5.2", "-1\n\n", "--1", "-1e5", "+1", "1", "-12345678901234567890"]


def g_atom(r):
    k = r.random()
    if k < 0.18:
        return r.choice(keyword.kwlist)
    if k < 0.28:
        return r.choice(STOP_EXTRA + SOFT)
    if k < 0.50:
        return r.choice(RUNS)
    if k < 0.62:
        return r.choice(NONASCII)
    if k < 0.80:
        return r.choice(PUNCT)
    if k < 0.86:
        return r.choice(NUMS)
    if k < 0.90:
        return ""
    # a few random code points: ASCII heavy, some from everywhere
    n = r.randint(1, 4)
    return "".join(chr(r.choice([r.randint(32, 126), r.randint(32, 126), r.randint(0xA0, 0x24F), r.randint(0x370, 0x3FF),
                                 r.randint(0x660, 0x669), r.randint(0x2000, 0x206F), r.randint(0x10000, 0x1007F)]))
                   for _ in range(n))


def g_name(r):
    k = r.random()
    if k < 0.12:
        return g_atom(r)
    if k < 0.16:
        return r.choice(NUMS)
    s = "".join(g_atom(r) for _ in range(r.randint(1, 4)))
    if r.random() < 0.15:
        s = s.swapcase()
    if r.random() < 0.1:
        s = s.capitalize()
    return s[:40]


def g_prefix(r):
    k = r.random()
    if k < 0.5:
        return r.choice(["type", "value", "mod", "pkg"])
    if k < 0.75:
        return r.choice(["", "_", "1", "1a", "é", "a", "sert", "x_", "None", "Type", "q", "name", "-", "_1", "aé", "f"])
    return g_name(r)[:8]


def g_conv(r):
    if r.random() < 0.4:
        return dict(DEFAULT_CONV)
    out = {}
    for k in CONV_KEYS:
        case = r.choice(CASES) if r.random() < 0.7 else DEFAULT_CONV[k][0]
        prefix = DEFAULT_CONV[k][1] if r.random() < 0.6 else r.choice(["f", "x_", "sert", "Type", "value", "my", "q"])
        out[k] = (case, prefix)
    return out


def conv_term(conv):
    full = dict(DEFAULT_CONV)
    full.update(conv or {})
    return clist([full[k] for k in CONV_KEYS], lambda cp: f"({cstr(cp[0])}, {cstr(cp[1])})")


def g_attr_list(r):
    """attr lists that collide on slugs in every way the handler distinguishes"""
    base = [r.choice(["a", "A", "a_b", "ab", "aB", "value", "", "_", "1a", "value_1a", "class", "class_value", "a_attribute",
                      "a_Attribute", "a_element", "a_1", "a_2", "A-1", "x", "é", "await", "-1", "value_minus_1", "b", "B_",
                      "urn_a", "foo_a"]) if r.random() < 0.8 else g_name(r)[:10] for _ in range(r.randint(1, 7))]
    if r.random() < 0.5:
        base += [r.choice(base) for _ in range(r.randint(1, 3))]
    if r.random() < 0.3:
        base = [b.upper() if r.random() < 0.3 else b for b in base]
    r.shuffle(base)
    enum = r.random() < 0.2
    out = []
    for n in base:
        tag = "Enumeration" if enum else r.choice(["Element", "Element", "Attribute", "Attribute", "AnyAttribute", "Any", "Choice"])
        ns = r.choice([None, None, "", "urn:a", "http://www.foo.com/a.xsd", "urn:x.y", "##other", "foo"])
        out.append({"name": n, "tag": tag, "ns": ns})
    return out


def g_class_list(r):
    names = [r.choice(["a", "A", "a_", "A_abstract", "a_abstract", "A_1", "a_1", "a1", "b", "B", "None", "NoneType", "none_type",
                       "1a", "type_1a", "Type1a", "c", "C-", "é"]) if r.random() < 0.85 else g_name(r)[:8]
             for _ in range(r.randint(2, 7))]
    names = [n for n in names if n] or ["a", "A"]
    if len(names) < 2:
        names.append(names[0])
    return [{"ns": r.choice(["", "", "urn:a", "urn:A", "urn:b"]), "name": n, "element": r.random() < 0.4,
             "abstract": r.random() < 0.25} for n in names]


STYLES = ["filenames", "namespaces", "clusters", "single-package", "namespace-clusters"]


def with_locations(r, classes, mode=None):
    """source locations for a class list: one location for all, one per namespace, or mixed; plus a structure style"""
    mode = mode or r.choice(["one", "one", "per-ns", "mixed"])
    for c in classes:
        if mode == "one":
            c["loc"] = "file:///a.xsd"
        elif mode == "per-ns":
            c["loc"] = "file:///" + (re.sub(r"\W", "", c["ns"]) or "none") + ".xsd"
        else:
            c["loc"] = r.choice(["file:///a.xsd", "file:///b.xsd", "file:///a.xml"])
    return classes, r.choice(STYLES)


def coq_codes(tag, ctype, fn, terms, shard=300):
    """Evaluate `fn : ctype -> N` on every term inside Coq; returns the list of numbers."""
    import re
    out = []
    for k in range(0, len(terms), shard):
        part = terms[k:k + shard]
        txt = coq_eval(f"c07_{tag}_{k}", IMPORTS, f"Definition cs : list ({ctype}) := [{'; '.join(part)}].", f"map ({fn}) cs")
        nums = [int(x) for x in re.findall(r"\d+", txt.replace("%N", ""))]
        if len(nums) != len(part):
            raise RuntimeError(f"coq_codes {tag}: expected {len(part)} numbers, got {txt[:300]}")
        out += nums
    return out


def g_class_cluster(r):
    """name-collision clusters: case variants of one base name plus classes that already carry the
    numeric suffixes the handler will try (_1, _2, ...), all in ONE namespace (so that the slug of the
    qualified name collides too), with fillers in other namespaces"""
    base = r.choice(["a", "ab", "x_y", "Type", "value", "none", "b1", "q"])
    ns = r.choice(["urn:x", "urn:x", "http://a.b/c", "urn:A", ""])
    variants = list(dict.fromkeys([base, base.upper(), base.capitalize(), base + "_", base.replace("_", "-"), base.swapcase()]))
    names = r.sample(variants, r.randint(2, min(4, len(variants))))
    for k in r.sample([1, 2, 3], r.randint(1, 3)):
        names.append(r.choice([base, base.upper(), base.capitalize()]) + r.choice(["_", "", "-"]) + str(k))
    out = [{"ns": ns, "name": n, "element": r.random() < 0.3, "abstract": r.random() < 0.15} for n in names]
    for _ in range(r.randint(0, 2)):
        out.append({"ns": r.choice(["urn:y", "", "urn:x"]), "name": r.choice(["other", base, base + "_1", "z"]), "element": r.random() < 0.4,
                    "abstract": False})
    r.shuffle(out)
    return out


# ---------------------------------------------------------------------------- term printers
def obs_sres(rs):
    if "ok" in rs:
        return f"(0%N, {cstr(rs['ok'])})"
    return "(1%N, (@nil N))" if rs["err"] == "RecursionError" else "(2%N, (@nil N))"


def attr_term(a):
    return f"({cstr(a['name'])}, {cstr(a['tag'])}, {copt(a['ns'], cstr)})"


def cls_term(c):
    return f"({cstr(c['ns'])}, {cstr(c['name'])}, {cbool(c['element'])}, {cbool(c['abstract'])})"


def lstr(xs):
    return clist(xs, cstr, "str")


WITNESS_ATTRS = [
    # by-preference rename creates a slug that is already taken
    [{"name": "a", "tag": "Element", "ns": None}, {"name": "a", "tag": "Attribute", "ns": None},
     {"name": "a_attribute", "tag": "Element", "ns": None}],
    # safe prefix collides with an existing field
    [{"name": "1a", "tag": "Element", "ns": None}, {"name": "value_1a", "tag": "Element", "ns": None}],
    # reserved-word suffix collides with an existing field
    [{"name": "class", "tag": "Element", "ns": None}, {"name": "class_value", "tag": "Element", "ns": None}],
    [{"name": "-1", "tag": "Enumeration", "ns": None}, {"name": "value_minus_1", "tag": "Enumeration", "ns": None}],
]
WITNESS_CLASSES = [
    # numeric suffix must skip an existing a_1, whether classes are compared by name or by qualified name
    (False, [{"ns": "urn:x", "name": "a", "element": False, "abstract": False}, {"ns": "urn:x", "name": "A", "element": False, "abstract": False},
             {"ns": "urn:x", "name": "a_1", "element": False, "abstract": False}, {"ns": "urn:y", "name": "other", "element": False, "abstract": False}]),
    (True, [{"ns": "urn:x", "name": "a", "element": False, "abstract": False}, {"ns": "urn:x", "name": "A", "element": False, "abstract": False},
            {"ns": "urn:x", "name": "a_1", "element": False, "abstract": False}, {"ns": "urn:x", "name": "A_2", "element": True, "abstract": False}]),
    (True, [{"ns": "", "name": "None", "element": False, "abstract": False},
            {"ns": "", "name": "NoneType", "element": False, "abstract": False}]),
    (True, [{"ns": "", "name": "A", "element": False, "abstract": True}, {"ns": "", "name": "a", "element": False, "abstract": False},
            {"ns": "", "name": "A_abstract", "element": False, "abstract": False}]),
    (True, [{"ns": "", "name": "1a", "element": False, "abstract": False},
            {"ns": "", "name": "type_1a", "element": False, "abstract": False}]),
]


# ============================================================================ pipeline oracle
def _walk_plans(plans, path=""):
    for p in plans:
        q = (path + "." if path else "") + p["class_name"]
        yield q, p
        yield from _walk_plans(p.get("inner", []), q)


def _all_names(res):
    """every identifier the generator produced for this run (fields, constants, classes, module path parts)"""
    out = []
    for m in res.get("modules", []):
        out += [x for x in m["module"].split(".") if x]
        for _, p in _walk_plans(m.get("classes", [])):
            out.append(p["class_name"])
            for a in p["attrs"]:
                out.append(a.get("field_name") or a.get("constant_name"))
    for pk in res.get("packages", []):
        out += [x for x in pk["module"].split(".") if x]
    return [x for x in dict.fromkeys(out) if x]


def _meta_strings(res):
    for m in res.get("modules", []):
        if m.get("namespace"):
            yield m["namespace"]
        for _, p in _walk_plans(m.get("classes", [])):
            for v in (p.get("meta") or {}).values():
                if isinstance(v, str):
                    yield v


def _find_plan(res, module, qual):
    for m in res.get("modules", []):
        if m["module"] == module:
            for q, p in _walk_plans(m.get("classes", [])):
                if q == qual:
                    return p
    return None


def _has_forwardref_union(res):
    for m in res.get("modules", []):
        for _, p in _walk_plans(m.get("classes", [])):
            for a in p["attrs"]:
                hit = re.search(r'"type": [^,\n]*"[A-Za-z_][\w.]*"[^,\n]* \| [^,\n]*|"type": [^,\n]* \| [^,\n]*"[A-Za-z_][\w.]*"[^,\n]*',
                                a.get("field_definition") or "")
                if hit:
                    return hit.group(0)
    return None


SHADOW_FIELDS = {"bytes", "tuple", "dataclass"}   # used by the generated class bodies, missing from text.stop_words
IMPORTED_HELPERS = ("ForwardRef", "Sequence", "Mapping", "XmlDate", "XmlDateTime", "XmlDuration", "XmlPeriod", "XmlTime", "dataclass")


def _shadowing_classes(res):
    """generated top-level classes named like something the module imports for its own use (not in text.stop_words)"""
    return sorted({p["class_name"] for m in res.get("modules", []) for p in m.get("classes", []) if p["class_name"] in IMPORTED_HELPERS})


def _enclosing_reference(res, msg):
    """NameError for the class name of a top-level class whose own inner classes mention it un-quoted in their metadata"""
    m = re.match(r"name '(\w+)' is not defined", msg or "")
    if not m:
        return False
    for mod in res.get("modules", []):
        for p in mod.get("classes", []):
            if p["class_name"] == m.group(1):
                for _, ip in _walk_plans(p.get("inner", [])):
                    if any(re.search(r'"type": (Type\[)?' + re.escape(m.group(1)) + r'\b', a.get("field_definition") or "") for a in ip["attrs"]):
                        return True
    return False


def _aliased_forward_ref(res, outer, missing):
    """a field type mentions <outer>.<missing>, <outer> is a generated class without an inner class rendered <missing>,
    and some module imports a class under the alias <missing>"""
    for mod in res.get("modules", []):
        for p in mod.get("classes", []):
            if p["class_name"] == outer and missing not in [i["class_name"] for i in p.get("inner", [])]:
                used = any(f"{outer}.{missing}" in (a.get("field_type") or "") for _, pp in _walk_plans([p]) for a in pp["attrs"])
                aliased = any(it.get("alias") and it["import_class"].endswith(" as " + missing)
                              for m2 in res.get("modules", []) for row in m2.get("imports", []) for it in row["items"])
                if used and aliased:
                    return True
    return False


def _defined_elsewhere(res, module, name):
    return any(m["module"] != module and any(p["class_name"] == name for p in m.get("classes", [])) for m in res.get("modules", []))


PREF_SUFFIX = ("_Attribute", "_Element", "_AnyAttribute", "_Any", "_Choice", "_Extension", "_Restriction", "_Enumeration", "_SimpleType",
               "_Group", "_AttributeGroup")


def classify_pipeline(job, res, coq):
    """-> list of (class, what).  `coq` batches the Coq verdicts (filled in a second pass)."""
    out = []
    conv = c07_gen.conv_of_options(job["options"])
    e = res.get("error") or {}
    st = res["status"]
    if st == "timeout":
        out.append(("pipeline-timeout", f"generation did not end within {job.get('timeout', 20)} s (stage {res['stage']}, at {e.get('where')})"))
        return out
    if st == "error":
        msg, typ, where = e.get("message") or "", e.get("type"), e.get("where") or ""
        if typ == "ValueError" and msg == "no such name" and "codegen/models.py" in where:
            out.append(("attr-name-without-unicode-name", "Attr.__post_init__ calls unicodedata.name on a code point that has no name: ValueError"))
        elif typ == "IndexError" and "split_qname" in where and job["kind"] == "json":
            out.append(("json-empty-key", "DictMapper: empty JSON key -> IndexError in namespaces.split_qname"))
        elif res["stage"] == "validate_imports" and typ == "SyntaxError":
            coq.ask("names", (res["id"], "syntax"), _all_names(res))
            out.append(("?syntax", msg))
        elif res["stage"] == "validate_imports" and typ == "TypeError" and "already defined as" in msg:
            out.append(("?enum-dup", msg))
        elif res["stage"] == "validate_imports" and typ == "NameError" and re.search(r"name '_\w+?__\w+' is not defined", msg):
            out.append(("class-name-mangled", "a class whose name starts with two underscores is referenced inside a class body: " + msg))
        elif res["stage"] == "validate_imports" and typ == "TypeError" and "unsupported operand type(s) for |" in msg and _has_forwardref_union(res):
            out.append(("choice-type-forwardref-union", "Filters.choice_type wraps a union that contains a quoted forward reference: "
                        + _has_forwardref_union(res) + " -> " + msg))
        elif res["stage"] == "validate_imports" and typ == "NameError" and _enclosing_reference(res, msg):
            out.append(("inner-class-refers-to-enclosing-class", "the metadata of an inner class names its enclosing top-level class, which is not "
                        "bound yet while its body runs: " + msg))
        elif res["stage"] == "validate_imports" and _shadowing_classes(res):
            out.append(("class-name-shadows-import", f"generated class(es) {_shadowing_classes(res)} hide the name the module imports for its "
                        f"own use: {typ}: {msg}"))
        elif res["stage"] == "validate_imports" and typ == "TypeError" and SHADOW_FIELDS & {
                a.get("field_name") for m in res.get("modules", []) for _, p in _walk_plans(m.get("classes", [])) for a in p["attrs"]}:
            out.append(("field-shadows-builtin-type", f"a field named bytes/tuple/dataclass shadows the name the class body itself uses: {msg}"))
        elif res["stage"] == "validate_imports" and typ == "ValueError" and "invalid enum member name" in msg:
            out.append(("enum-member-reserved-name", msg))
        elif res["stage"] == "process" and typ == "KeyError" and "utils/graphs.py" in where:
            out.append(("clusters-dangling-dependency-keyerror", f"strongly_connected_components: KeyError {msg} - a class depends on a qname "
                        "that is not in the container (structure style clusters / namespace-clusters)"))
        elif res["stage"] == "write" and typ == "ConverterError" and "field_default_value" in (e.get("traceback") or ""):
            out.append(("default-value-not-convertible", f"Filters.field_default_value: {msg}"))
        elif res["stage"] == "process" and typ == "KeyError" and "detect_circular_references.py" in where:
            out.append(("internal-keyerror-detect-circular-references", f"KeyError in DetectCircularReferences.is_circular ({where})"))
        else:
            out.append((f"internal-error-{typ}-{res['stage']}", f"{typ}: {msg} at {where}"))
    # duplicates are judged on the plan even when the import failed because of them
    for m in res.get("modules", []):
        tops = [p for p in m.get("classes", [])]
        names, cnames = [p["name"] for p in tops], [p["class_name"] for p in tops]
        # names imported into the module share its name space (the resolver aliases only equal slugs)
        for row in m.get("imports", []):
            for it in row["items"]:
                if not it.get("alias"):
                    names.append(it["name"])
                    cnames.append(it["import_class"])
        if len(set(cnames)) != len(cnames):
            coq.ask("dupclasses", (res["id"], m["module"]), (conv, names, cnames))
        for q, p in _walk_plans(tops):
            key = "constant_name" if p["kind"] == "enum" else "field_name"
            fields = [a[key] for a in p["attrs"]]
            if len(set(fields)) != len(fields):
                coq.ask("dupfields", (res["id"], m["module"], q), (conv, p["kind"] == "enum", [a["name"] for a in p["attrs"]], fields,
                                                                   [a.get("tag") for a in p["attrs"]]))
            inner = [i["class_name"] for i in p.get("inner", [])]
            if len(set(inner)) != len(inner):
                coq.ask("dupclasses", (res["id"], m["module"] + "::" + q), (conv, [i["name"] for i in p["inner"]], inner))
                # inner classes that a later handler CREATED (DisambiguateChoices reference classes: local type, a single
                # `value` extension attr) are named by next_available_name and must be fresh w.r.t. the existing ones
                dup_names = {n for n in inner if inner.count(n) > 1}
                created = [i["name"] for i in p["inner"] if i["class_name"] in dup_names and i.get("local_type")
                           and [a["name"] for a in i["attrs"]] == ["value"] and i["attrs"][0].get("tag") == "Extension"]
                if created:
                    # decided in resolve_pipeline: next_available_name guarantees a fresh SLUG, so only a slug collision
                    # (Coq verdict 1) is attributed to the creating handler; a collision that appears only after the safe
                    # prefix / reserved suffix (verdict 2) is the open F4/F16 family
                    out.append(("?created", f"{m['module']}::{q}|{m['module']}.{q}: inner class(es) {created} created by a later handler are rendered "
                                f"{sorted(dup_names)} like an existing inner class: {[i['name'] for i in p['inner']]} -> {inner}"))
            if set(inner) & set(fields):
                out.append(("field-vs-inner-class", f"{m['module']}.{q}: inner classes {inner} / fields {fields}"))
    b = res.get("bind")
    if st == "ok" and b:
        if b.get("import_error"):
            ie = b["import_error"]
            if ie.get("type") == "SyntaxError":
                coq.ask("names", (res["id"], "syntax"), _all_names(res))
                out.append(("?syntax", ie.get("message")))
            else:
                out.append((f"internal-error-import-{ie.get('type')}", str(ie.get("message"))))
        for c in b["classes"]:
            for ph in ("build", "init"):
                if c[ph] not in ("ok", None):
                    err = c[ph]
                    plan = _find_plan(res, c["module"], c["qualname"]) or {}
                    fields = [a.get("field_name") for a in plan.get("attrs", [])]
                    outer = _find_plan(res, c["module"], c["qualname"].split(".")[0]) or {}
                    ofields = [a.get("field_name") for _, pp in _walk_plans([outer]) for a in pp.get("attrs", [])] if outer else []
                    missing = re.match(r"name '(\w+)' is not defined", err["message"] or "")
                    # any module of the run: build_recursive walks into the classes of other modules
                    mod_fields = {a.get("field_name") for mm in res.get("modules", [])
                                  for _, pp in _walk_plans(mm.get("classes", [])) for a in pp.get("attrs", [])}
                    shadow = _shadowing_classes(res)
                    noattr = re.match(r"type object '(\w+)' has no attribute '(\w+)'", err["message"] or "")
                    if err["type"] == "AttributeError" and noattr and _aliased_forward_ref(res, noattr.group(1), noattr.group(2)):
                        out.append(("forward-ref-aliased", f"{c['module']}.{c['qualname']}: an annotation names {noattr.group(1)}.{noattr.group(2)}, but the "
                                    f"inner class of {noattr.group(1)} is rendered under another name: the import alias of a same-qname class was applied to "
                                    "the forward reference"))
                    elif err["type"] == "XmlContextError" and "Compound field contains ambiguous types" in (err["message"] or ""):
                        out.append(("compound-field-ambiguous-types", f"{c['module']}.{c['qualname']}: {err['message']}"))
                    elif shadow:
                        out.append(("class-name-shadows-import", f"{c['module']}.{c['qualname']}: generated class(es) {shadow} hide the name the "
                                    f"module imports for its own use: {err['type']}: {err['message']}"))
                    elif err["type"] == "NameError" and missing and _defined_elsewhere(res, None, missing.group(1)):
                        out.append(("cross-module-circular-reference", f"{c['module']}.{c['qualname']}: the annotation names {missing.group(1)}, a class of "
                                    "another generated module that is not imported (circular dependency turned into a bare forward reference)"))
                    elif SHADOW_FIELDS & (set(fields + ofields) | mod_fields):
                        out.append(("field-shadows-builtin-type", f"{c['module']}.{c['qualname']}: a field named bytes/tuple shadows the type "
                                    f"used by another annotation or default_factory: {err['message']}"))
                    else:
                        out.append((f"bind-{ph}-{err['type']}", f"{c['module']}.{c['qualname']}: {err['type']}: {err['message']} at {err.get('where')}"))
    return out


class CoqBatch:
    def __init__(self):
        self.q = {"names": [], "dupfields": [], "dupclasses": []}
        self.ans = {}

    def ask(self, kind, key, payload):
        self.q[kind].append((key, payload))

    def run(self):
        if self.q["names"]:
            flat = [(key, n) for key, names in self.q["names"] for n in names]
            codes = coq_codes("pipe_names", "str", "name_verdict", [cstr(n) for _, n in flat])
            for (key, n), code in zip(flat, codes):
                self.ans.setdefault(("names", key), []).append((n, code))
        if self.q["dupfields"]:
            terms = [f"({conv_term(conv)}, {cbool(enum)}, {lstr(names)}, {lstr(fields)})" for _, (conv, enum, names, fields, _t) in self.q["dupfields"]]
            codes = coq_codes("pipe_dupf", "list (str * str) * bool * list str * list str", "classify_dup_fields", terms)
            for (key, payload), code in zip(self.q["dupfields"], codes):
                self.ans[("dupfields", key)] = (code, payload)
        if self.q["dupclasses"]:
            terms = [f"({conv_term(conv)}, {lstr(names)}, {lstr(cnames)})" for _, (conv, names, cnames) in self.q["dupclasses"]]
            codes = coq_codes("pipe_dupc", "list (str * str) * list str * list str", "classify_dup_classes", terms)
            for (key, payload), code in zip(self.q["dupclasses"], codes):
                self.ans[("dupclasses", key)] = (code, payload)


def _pref_signature(names, tags):
    """does some colliding name carry the suffix/prefix rename_attribute_by_preference adds?"""
    slugs = {}
    for n, t in zip(names, tags):
        slugs.setdefault(re.sub(r"[^a-z0-9]", "", n.lower()), []).append((n, t))
    for group in slugs.values():
        if len(group) > 1:
            for n, t in group:
                # namespace variant: "<clean_uri(ns)>_<name>" next to another attr still called <name>
                if any(m != n and n.endswith("_" + m) for m in names):
                    return True
                if (t and n.endswith("_" + t)) or any(n.endswith(sfx) for sfx in PREF_SUFFIX) or re.match(r"^[A-Za-z0-9_.\-]+_[^_]", n) and "_" in n and t in ("Element", "Attribute") and False:
                    return True
    return False


def resolve_pipeline(job, res, prelim, coq):
    out = []
    payload_qnames = {(res["id"], m["module"]): [p["qname"] for p in m.get("classes", [])] for m in res.get("modules", [])}
    for cls, what in prelim:
        if cls == "?syntax":
            verdicts = coq.ans.get(("names", (res["id"], "syntax")), [])
            kws = [n for n, code in verdicts if code == 1]
            other_kws = [n for n, code in verdicts if code == 3]
            if other_kws:
                out.append(("keyword-leaks-" + other_kws[0], f"generated module does not compile: name(s) {other_kws} are Python keywords ({what})"))
                continue
            bad = [n for n, code in verdicts if code == 2]
            hostile_meta = [v for v in _meta_strings(res) if any(ch in v for ch in '"\\\n\r')]
            if kws:
                out.append(("keyword-not-reserved", f"generated module does not compile: name(s) {kws} are Python keywords ({what})"))
            elif hostile_meta:
                out.append(("template-unescaped-string", f"class Meta / __NAMESPACE__ string written without escaping: {hostile_meta[:2]} ({what})"))
            elif bad:
                out.append(("generated-name-not-identifier", f"name(s) {bad} are not identifiers ({what})"))
            else:
                out.append(("generated-syntax-error", what))
        elif cls == "?created":
            key, text_ = what.split("|", 1)
            code = coq.ans.get(("dupclasses", (res["id"], key)), (0, None))[0]
            if code == 1:
                out.append(("dup-inner-class-created", text_))
        elif cls == "?enum-dup":
            got = [(k, v) for k, v in coq.ans.items() if k[0] == "dupfields" and k[1][0] == res["id"] and v[1][1]]
            if any(code == 2 for _, (code, _p) in got):
                out.append(("dup-field-safe-adjust", f"enum members collide after the safe prefix/suffix: {what}"))
            elif got:
                out.append(("dup-enum-member-unexplained", what))
            else:
                out.append(("internal-error-TypeError-validate_imports", what))
        else:
            out.append((cls, what))
    for k, v in coq.ans.items():
        if k[0] == "names" or k[1][0] != res["id"]:
            continue
        code, payload = v
        if k[0] == "dupfields":
            conv, enum, names, fields, tags = payload
            what = f"{k[1][1]}.{k[1][2]}: attr names {names} -> {'constants' if enum else 'fields'} {fields}"
            if code == 2:
                cls = "dup-field-safe-adjust"
            elif code == 1 and _pref_signature(names, tags):
                cls = "dup-field-preference-rename"
            else:
                cls = "dup-field-unexplained"
            if not (enum and any(c == "dup-field-safe-adjust" for c, _ in out) and cls == "dup-field-safe-adjust"):
                out.append((cls, what))
        elif k[0] == "dupclasses":
            conv, names, cnames = payload
            what = f"{k[1][1]}: class names {names} -> {cnames}"
            qn = payload_qnames.get(k[1], [])
            collide = {}
            for n, c2, q2 in zip(names, cnames, qn):
                collide.setdefault(c2, set()).add(q2.split("}")[0] if q2.startswith("{") else "")
            if "::" not in k[1][1] and code == 1 and any(len(v) > 1 for v in collide.values()):
                # F17 needs classes from several locations (only then are qualified names compared); from ONE location
                # plain names must have been made unique
                if len(job["sources"]) > 1:
                    out.append(("dup-class-qname-vs-module", what + "  (same local name, different namespaces, one module)"))
                else:
                    out.append(("dup-class-single-location", what + "  (one source location: plain names have to be unique)"))
            elif "::" in k[1][1] and code in (1, 2):
                if not any(c == "dup-inner-class-created" for c, _ in out):
                    out.append(("dup-inner-class", what + "  (inner classes are never renamed apart)"))
            elif code == 2:
                out.append(("dup-class-safe-adjust", what))
            elif code == 1 and any(n.endswith("_abstract") for n in names):
                out.append(("dup-class-abstract-suffix", what))
            else:
                out.append(("dup-class-unexplained", what))
    # a module with two classes / two fields of the same name has no defined behaviour: attribute the follow-up
    # import or binding error of the same run to the duplicate instead of reporting it a second time
    if any(c in ("dup-class-safe-adjust", "dup-class-abstract-suffix", "dup-field-safe-adjust", "dup-field-preference-rename", "dup-inner-class")
           for c, _ in out):
        out = [(c, w) for c, w in out if not (c.startswith("internal-error-") and c.endswith("validate_imports")) and not c.startswith("bind-")]
    return out


def pipeline_oracle(ck: Check):
    r = ck.rng
    t0 = time.time()
    diffs = codegen_run.validate_standin()
    for d in diffs:
        ck.failure("standin-differs-from-committed-output", d, {"difference": d})
    jobs = []
    # replayable witnesses first
    W = c07_gen
    fixed = [
        ("xsd", {"s.xsd": W_XSD_PREF}, {}), ("xsd", {"s.xsd": W_XSD_AWAIT}, {}), ("xsd", {"s.xsd": W_XSD_NONETYPE}, {}),
        ("xsd", {"s.xsd": W_XSD_ENUM}, {}), ("json", {"s.json": '{"1a": 1, "value_1a": 2}'}, {}),
        ("json", {"s.json": '{"": 1}'}, {}), ("xml", {"s.xml": "<r><\u0378>1</\u0378></r>"}, {}),
        ("json", {"s.json": '{"a\\"b": {"x": 1}}'}, {}), ("xsd", {"s.xsd": W_XSD_BYTES}, {}),
        ("xsd", {"s.xsd": W_XSD_F13}, {}), ("xsd", {"s.xsd": W_XSD_F16}, {}), ("xsd", {"s.xsd": W_XSD_F20}, {}),
        ("xsd", {"s.xsd": W_XSD_F14}, {"generic_collections": True}),
        ("xml", {"await0.xml": W_XML_F12}, {"wrapper_fields": True, "frozen": True, "slots": True}),
        ("xsd", {"a.xsd": W_XSD_R4M1}, {"compound_fields": True}), ("xsd", {"a.xsd": W_XSD_R4M1}, {"compound_fields": True, "wrapper_fields": True}),
        # a created inner class whose name collides only after the safe prefix (_1a -> Type1A next to type_1a): open F4/F16 family
        ("xsd", {"a.xsd": W_XSD_R4M1.replace("x-y", "type_1a").replace("x_y", "_1a")}, {"compound_fields": True}),
        ("xsd", {"a.xsd": W_XSD_R4M2}, {}), ("xsd", {"a.xsd": W_XSD_R4M2}, {"structure_style": "clusters"}),
        ("xml", {"sample.xml": W_XML_NS}, {}), ("xml", {"sample.xml": W_XML_NS}, {"structure_style": "namespaces"}),
        ("xml", {"sample.xml": W_XML_NS}, {"structure_style": "namespace-clusters"}),
        ("xsd", {"s.xsd": W_XSD_F21}, {}), ("xsd", {"s.xsd": W_XSD_F22}, {"structure_style": "single-package"}),
        ("xsd", {"one.xsd": W_XSD_CLUSTER, "two.xsd": W_XSD_OTHER}, {}),
        ("xsd", {"one.xsd": W_XSD_CLUSTER, "two.xsd": W_XSD_OTHER}, {"structure_style": "namespaces"}),
        ("xsd", {"one.xsd": W_XSD_CLUSTER, "two.xsd": W_XSD_OTHER}, {"structure_style": "clusters"}),
        ("xsd", {"one.xsd": W_XSD_CLUSTER}, {"structure_style": "single-package"}),
    ]
    for kind, src, opt in fixed:
        jobs.append({"sources": src, "options": opt, "kind": kind, "features": ["witness"]})
    for _ in range(ck.n(260, 4000)):
        jobs.append(c07_gen.g_job(r))
    for i, j in enumerate(jobs):
        j["id"] = i
        j["timeout"] = 20
    res = []
    CH = 130
    for k in range(0, len(jobs), CH):
        part = [{"id": j["id"], "sources": j["sources"], "options": j["options"], "timeout": j["timeout"], "want": ["plan", "import", "bind"]}
                for j in jobs[k:k + CH]]
        res += codegen_run.run_jobs(part, timeout=1500)
    coq = CoqBatch()
    prelim = [classify_pipeline(j, x, coq) for j, x in zip(jobs, res)]
    coq.run()
    summary = {"runs": len(jobs), "by_kind": {}, "by_status": {}, "classes": {}, "standin_differences": len(diffs), "generated_classes": 0}
    distinct = set()
    for j, x, pre in zip(jobs, res, prelim):
        summary["by_kind"][j["kind"]] = summary["by_kind"].get(j["kind"], 0) + 1
        key = x["status"] + ("" if x["status"] == "ok" else ":" + x["stage"])
        summary["by_status"][key] = summary["by_status"].get(key, 0) + 1
        if x["stage"] not in ("config", "parse_map"):
            distinct.add(("pipeline", hashlib.sha1(json.dumps([j["sources"], j["options"]], sort_keys=True).encode()).hexdigest()))
        summary["generated_classes"] += len((x.get("bind") or {}).get("classes", []))
        for cls, what in resolve_pipeline(j, x, pre, coq):
            summary["classes"][cls] = summary["classes"].get(cls, 0) + 1
            ck.failure(cls, f"[{j['kind']} {sorted(j['sources'])} {j['options']}] {what}",
                       {"sources": j["sources"], "options": j["options"], "kind": j["kind"], "status": x["status"], "stage": x["stage"],
                        "error": {k: v for k, v in (x.get("error") or {}).items() if k != "traceback"} if x.get("error") else None})
    summary["wall_s"] = round(time.time() - t0, 1)
    return {"runs": len(jobs), "distinct": distinct, "summary": summary}


def _xsd(body):
    return f'<xs:schema xmlns:xs="http://www.w3.org/2001/XMLSchema">{body}</xs:schema>'


def _ct(name, els=(), attrs=(), extra=""):
    return (f'<xs:complexType name="{name}"><xs:sequence>' + "".join(f'<xs:element name="{e}" type="xs:string"/>' for e in els)
            + "</xs:sequence>" + "".join(f'<xs:attribute name="{a}" type="xs:string"/>' for a in attrs) + extra + "</xs:complexType>")


W_XSD_PREF = _xsd(_ct("T", ["a", "a_attribute"], ["a"]))
W_XSD_AWAIT = _xsd(_ct("T", ["await"]))
W_XSD_NONETYPE = _xsd(_ct("None", ["x"]) + _ct("NoneType", ["y"]))
W_XSD_ENUM = _xsd('<xs:simpleType name="E"><xs:restriction base="xs:string"><xs:enumeration value="1a"/><xs:enumeration value="value_1a"/>'
                  '</xs:restriction></xs:simpleType>' + _ct("T", ["class", "class_value"]))
W_XSD_BYTES = _xsd(_ct("T", ["x"], [], '<xs:attribute name="bytes" type="xs:string" default="x"/><xs:attribute name="b" type="xs:base64Binary"/>'))


W_XSD_F13 = ('<xs:schema xmlns:xs="http://www.w3.org/2001/XMLSchema" xmlns:p="urn:a" targetNamespace="urn:a"><xs:element name="r"><xs:complexType>'
             '<xs:sequence><xs:element name="e" type="p:T"/></xs:sequence></xs:complexType></xs:element><xs:complexType name="T" mixed="true">'
             '<xs:sequence><xs:element name="m"><xs:complexType/></xs:element></xs:sequence><xs:attribute name="q" type="xs:string" '
             'use="prohibited"/></xs:complexType></xs:schema>')
_INNER = '<xs:element name="%s"><xs:complexType><xs:sequence><xs:element name="x" type="xs:string"/></xs:sequence></xs:complexType></xs:element>'
W_XSD_F16 = _xsd('<xs:complexType name="T"><xs:sequence>' + _INNER % "a" + _INNER % "A" + '</xs:sequence></xs:complexType>')
W_XSD_F20 = _xsd('<xs:simpleType name="U"><xs:union memberTypes="xs:hexBinary xs:int xs:time"/></xs:simpleType><xs:element name="root">'
                 '<xs:complexType><xs:simpleContent><xs:extension base="U"><xs:attribute name="a" type="xs:string"/></xs:extension>'
                 '</xs:simpleContent></xs:complexType></xs:element>')
W_XSD_F14 = _xsd(_ct("Sequence", ["x"]) + '<xs:complexType name="T"><xs:sequence><xs:element name="y" type="xs:string" maxOccurs="unbounded"/>'
                 '<xs:element name="s" type="Sequence"/></xs:sequence></xs:complexType>')


W_XML_F12 = '<values><True ForwardRef="-١"><_1></_1><_1 values="" AB_a_b="A">mixed <_1><True True="\'"> </True></_1> tail</_1><_1><values>mixed <values></values> tail</values><_1 True="-.5" _1="class"> </_1><values> </values></_1><values><_1><_1></_1><True>2001-01-01</True></_1><True>true</True></values></True><True>2001-01-01</True></values>'
W_XSD_R4M1 = _xsd('<xs:element name="root"><xs:complexType><xs:sequence><xs:element name="x-y"><xs:complexType><xs:sequence>'
                  '<xs:element name="p" type="xs:string"/></xs:sequence></xs:complexType></xs:element><xs:choice maxOccurs="unbounded">'
                  '<xs:element name="x_y" type="xs:int"/><xs:element name="z" type="xs:int"/></xs:choice></xs:sequence></xs:complexType></xs:element>')
_ENUM = '<xs:simpleType name="%s"><xs:restriction base="xs:%s">%s</xs:restriction></xs:simpleType>'
W_XSD_R4M2 = ('<xs:schema xmlns:xs="http://www.w3.org/2001/XMLSchema" targetNamespace="urn:a" xmlns:a="urn:a" elementFormDefault="qualified">'
              + "".join(_ENUM % (n, b, "".join(f'<xs:enumeration value="{v}"/>' for v in vs)) for n, b, vs in (
                  ("Rate", "decimal", ("1.5", "2.5")), ("Day", "date", ("2020-01-01", "2021-01-01")), ("Span", "duration", ("P1D", "PT1H")),
                  ("Name", "QName", ("xs:int", "xs:string")), ("At", "dateTime", ("2020-01-01T00:00:00",)), ("T", "time", ("12:00:00",)),
                  ("Y", "gYear", ("2020",))))
              + '<xs:element name="root"><xs:complexType><xs:sequence><xs:element name="rate" type="a:Rate"/><xs:element name="day" type="a:Day" '
              'minOccurs="0"/><xs:element name="span" type="a:Span"/><xs:element name="name" type="a:Name"/><xs:element name="at" type="a:At"/>'
              '<xs:element name="t" type="a:T"/><xs:element name="y" type="a:Y"/></xs:sequence></xs:complexType></xs:element></xs:schema>')
W_XML_NS = ('<a:root xmlns:a="urn:a" xmlns:b="urn:b"><a:item><a:x>1</a:x></a:item><b:item><b:y>text</b:y></b:item></a:root>')
W_XSD_F21 = _xsd('<xs:complexType name="B"><xs:sequence><xs:element name="x" type="xs:string"/></xs:sequence></xs:complexType>'
                 '<xs:complexType name="D"><xs:complexContent><xs:extension base="B"><xs:attribute name="x" type="xs:string"/>'
                 '<xs:attribute name="x_Attribute" type="xs:string"/></xs:extension></xs:complexContent></xs:complexType>')
W_XSD_F22 = ('<xs:schema xmlns:xs="http://www.w3.org/2001/XMLSchema" xmlns:p1="urn:a" targetNamespace="urn:a" elementFormDefault="qualified">'
             '<xs:element name="yield" substitutionGroup="p1:global"/><xs:complexType name="yield" abstract="true"><xs:sequence>'
             '<xs:element name="False" type="xs:anyURI"/><xs:element name="False" minOccurs="2" maxOccurs="2"><xs:complexType mixed="true">'
             '<xs:choice><xs:element ref="p1:global"/></xs:choice></xs:complexType></xs:element></xs:sequence></xs:complexType>'
             '<xs:element name="global"/></xs:schema>')
_CT = '<xs:complexType name="%s"><xs:sequence><xs:element name="p" type="xs:string"/></xs:sequence></xs:complexType>'
W_XSD_CLUSTER = ('<xs:schema xmlns:xs="http://www.w3.org/2001/XMLSchema" targetNamespace="urn:x" xmlns="urn:x" elementFormDefault="qualified">'
                 + _CT % "a" + _CT % "A" + _CT % "a_1" + '<xs:element name="root"><xs:complexType><xs:sequence><xs:element name="x" type="a"/>'
                 '<xs:element name="y" type="A"/><xs:element name="z" type="a_1"/></xs:sequence></xs:complexType></xs:element></xs:schema>')
W_XSD_OTHER = '<xs:schema xmlns:xs="http://www.w3.org/2001/XMLSchema" targetNamespace="urn:y">' + _CT % "other" + "</xs:schema>"


def run(ck: Check):
    ck.level = "proof"
    obligations, discharged, axioms = standard_proof_step(ck, extra_targets=["Model/SafeCorr.vo"])
    r = ck.rng
    N = ck.n(1, 12)

    ops, meta = [], []

    def add(op, **m):
        ops.append(op)
        meta.append(m)

    # ---------------- text.py
    names = [g_name(r) for _ in range(260 * N)]
    names += ["", "await", "class", "None", "QName", "q name", "1a", "-1", "-1\n", "a²", "éa", "__init__", "ABC1def", "abcDEFghi",
              "Q_name", "as", "as_sert"] + NUMS + keyword.kwlist + STOP_EXTRA
    for s in names:
        for fn in (TEXT_FN if r.random() < 0.25 else r.sample(TEXT_FN, 4)):
            if fn == "capitalize" and s and ord(s[0]) > 127:
                continue  # model domain: capitalize is only ever applied to mixed_case output (ASCII)
            add({"op": "text", "fn": fn, "s": s}, kind="text", fn=TEXT_FN.index(fn))
    for cp in list(range(0, 130)) + [r.randint(128, 0x10FFFF) for _ in range(60 * N)]:
        add({"op": "classify", "c": chr(cp)}, kind="classify")
    words = {w for s in names for w in __import__("re").findall(r"[A-Za-z0-9]+", s)}
    for w in sorted(words)[:300 * N]:
        add({"op": "text", "fn": "title", "s": w}, kind="title")
    # ---------------- safe_name with arbitrary prefixes / conventions
    for _ in range(500 * N):
        add({"op": "safe_name", "name": g_name(r), "prefix": g_prefix(r), "case": r.choice(CASES)}, kind="safe_name")
    for w in ("as", "in", "Q", "await", "", "1", "-1", "class", "None", "type", "Meta"):
        for p in ("sert", "t", "name", "type", "value", "", "_", "1a", "é"):
            for c in ("mixedCase", "pascalCase", "snakeCase", "originalCase", "camelCase"):
                add({"op": "safe_name", "name": w, "prefix": p, "case": c}, kind="safe_name")
    # ---------------- the five filters under sampled conventions
    for _ in range(80 * N):
        conv = g_conv(r)
        for _ in range(6):
            nm = g_name(r)
            if r.random() < 0.3:
                nm = r.choice(["urn:foo-bar:a.b", "http://www.w3.org/2001/XMLSchema", "https://x.y/z.xsd", "##any", "a.b.c",
                               "generated.my-pkg.1st", "urn:", "http:", ":a", "www.wsdl.a", ".a..b.", "http://a:80/b#c"]) + r.choice(["", nm])
            add({"op": "filter", "conv": conv, "fn": r.choice(FILTER_FN), "name": nm}, kind="filter")
    # ---------------- Filters.__init__ safe-prefix validation (fix for C07-F6)
    for _ in range(60 * N):
        conv = dict(DEFAULT_CONV)
        for k in r.sample(CONV_KEYS, r.randint(1, 2)):
            conv[k] = (conv[k][0], g_prefix(r))
        add({"op": "filters_init", "conv": conv}, kind="filters_init")
    for bad in ("", "_", "1", "1a", "é", "-"):
        for k in CONV_KEYS:
            add({"op": "filters_init", "conv": dict(DEFAULT_CONV, **{k: (DEFAULT_CONV[k][0], bad)})}, kind="filters_init", witness=True)
    # ---------------- rename handlers
    for _ in range(150 * N):
        nm = g_name(r)[:8]
        res = [__import__("re").sub(r"[^a-z0-9]", "", (nm + "_" + str(i)).lower()) for i in r.sample(range(0, 14), r.randint(0, 12))]
        res += [__import__("re").sub(r"[^a-z0-9]", "", nm.lower())] if r.random() < 0.8 else []
        add({"op": "unique_name", "name": nm, "reserved": sorted(set(res))}, kind="unique_name")
    for attrs in WITNESS_ATTRS:
        add({"op": "rename_attrs", "attrs": attrs, "conv": {}}, kind="rename_attrs", conv={})
    for _ in range(260 * N):
        conv = g_conv(r) if r.random() < 0.3 else {}
        add({"op": "rename_attrs", "attrs": g_attr_list(r), "conv": conv}, kind="rename_attrs", conv=conv)
    for un, cl in WITNESS_CLASSES:
        cl2, _ = with_locations(r, [dict(c) for c in cl], "one" if un else "per-ns")
        add({"op": "rename_classes", "style": "filenames", "classes": cl2, "conv": {}}, kind="rename_classes", conv={})
    # same local name in two namespaces, ONE location (an XML sample): plain names must be compared
    for style in STYLES:
        cl = [{"ns": "urn:a", "name": "root", "element": True, "abstract": False, "loc": "file:///s.xml"},
              {"ns": "urn:a", "name": "item", "element": True, "abstract": False, "loc": "file:///s.xml"},
              {"ns": "urn:b", "name": "item", "element": True, "abstract": False, "loc": "file:///s.xml"}]
        add({"op": "rename_classes", "style": style, "classes": cl, "conv": {}}, kind="rename_classes", conv={})
    for _ in range(200 * N):
        conv = g_conv(r) if r.random() < 0.3 else {}
        cl, style = with_locations(r, g_class_list(r))
        add({"op": "rename_classes", "style": style, "classes": cl, "conv": conv}, kind="rename_classes", conv=conv)
    for _ in range(160 * N):
        cl, style = with_locations(r, g_class_cluster(r))
        add({"op": "rename_classes", "style": style, "classes": cl, "conv": {}}, kind="rename_classes", conv={})

    res = run_impl("impl_c07.py", ops, timeout=900, with_shims=True)
    ck.cov["evaluations"] = len(ops)
    for op, rs in zip(ops, res):
        if rs.get("err") == "harness":
            raise RuntimeError(f"harness precondition failed: {op} {rs}")

    def items_of(kind):
        return [(i, ops[i], res[i], meta[i]) for i in range(len(ops)) if meta[i]["kind"] == kind]

    def run_pred(tag, ctype, pred, items, terms):
        bad = coq_bad_indices(f"c07_{tag}", IMPORTS, "", ctype, pred, terms)
        return [items[i] for i in bad]

    distinct = set()
    # -- text
    items = items_of("text")
    terms = []
    for _, op, rs, m in items:
        distinct.add(("text", op["fn"], op["s"]))
        if "ok" in rs:
            v = rs["ok"]
            v = v if isinstance(v, list) else [("1" if v else "0") if isinstance(v, bool) else v]
            obs = f"(Some {lstr(v)})"
        elif rs["err"] == "IndexError":
            obs = "None"
        else:
            ck.failure("unexpected-exception-" + rs["err"], f"text.{op['fn']}({op['s']!r}) raised {rs['err']}", {"op": op, "impl": rs})
            obs = "None"
        terms.append(f"({m['fn']}%N, {cstr(op['s'])}, {obs})")
    for it in run_pred("text", "N * str * option (list str)", "agree_text", items, terms):
        ck.failure(f"corr-text-{it[1]['fn']}", f"model and implementation disagree on text.{it[1]['fn']}({it[1]['s']!r}): impl={it[2]}",
                   {"op": it[1], "impl": it[2]})
    items = items_of("title")
    terms = [f"({cstr(it[1]['s'])}, {cstr(it[2]['ok'])})" for it in items]
    for it in run_pred("title", "str * str", "agree_title", items, terms):
        ck.failure("corr-text-title", f"str.title({it[1]['s']!r}) = {it[2]['ok']!r} differs from the model", {"op": it[1], "impl": it[2]})
    items = items_of("classify")
    terms = [f"({ord(it[1]['c'])}%N, {it[2]['ok']}%N)" for it in items]
    for it in run_pred("classify", "N * N", "agree_classify", items, terms):
        ck.failure("corr-text-classify", f"classify({it[1]['c']!r}) = {it[2]['ok']} differs from the model", {"op": it[1], "impl": it[2]})

    # -- safe_name
    items = items_of("safe_name")
    terms = []
    for _, op, rs, _m in items:
        distinct.add(("safe_name", op["name"], op["prefix"], op["case"]))
        terms.append(f"({cstr(op['name'])}, {cstr(op['prefix'])}, {cstr(op['case'])}, {obs_sres(rs)})")
    for it in run_pred("safe_name", "str * str * str * (N * str)", "agree_safe_name", items, terms):
        ck.failure("corr-safe-name", f"model and implementation disagree on safe_name({it[1]['name']!r}, {it[1]['prefix']!r}, {it[1]['case']}): impl={it[2]}",
                   {"op": it[1], "impl": it[2]})
    # oracle: identifier and not keyword whenever the implementation returns a name
    ok_items = [it for it in items if "ok" in it[2]]
    codes = coq_codes("safe_usable", "str", "name_verdict", [cstr(it[2]["ok"]) for it in ok_items])
    for it, code in zip(ok_items, codes):
        what = f"safe_name({it[1]['name']!r}, {it[1]['prefix']!r}, {it[1]['case']}) = {it[2]['ok']!r}"
        if code == 1:
            ck.failure("keyword-not-reserved", what + " is a Python keyword", {"op": it[1], "impl": it[2]})
        elif code == 3:
            ck.failure("keyword-leaks-" + it[2]["ok"], what + " is a Python keyword (and not the known missing one)", {"op": it[1], "impl": it[2]})
        elif code == 2 and it[1]["case"] == "originalCase":
            ck.failure("original-case-non-identifier", what + " is not an identifier", {"op": it[1], "impl": it[2]})
        elif code != 0:
            ck.failure("safe-name-not-identifier", what + " is not a usable identifier", {"op": it[1], "impl": it[2]})
    # cross-check the Spec notion against the interpreter on the produced names
    id_ops = [{"op": "text", "fn": "isidentifier", "s": it[2]["ok"]} for it in ok_items]
    id_res = run_impl("impl_c07.py", id_ops, with_shims=True)
    idt = [f"({cstr(o['s'])}, {cbool(x['ok'] and not keyword.iskeyword(o['s']))})" for o, x in zip(id_ops, id_res)]
    for i in coq_bad_indices("c07_idspec", IMPORTS, "", "str * bool", "(fun c => Bool.eqb (usable_nameb (fst c)) (snd c))", idt):
        ck.failure("spec-identifier-vs-interpreter", f"Spec/PyIdent (with XID tables) and str.isidentifier/keyword disagree on {id_ops[i]['s']!r}",
                   {"name": id_ops[i]["s"]})
    rec_items = [it for it in items if it[2].get("err") == "RecursionError"]
    codes = coq_codes("safe_term", "str", "(fun p => if valid_prefix p then 1 else 0)", [cstr(it[1]["prefix"]) for it in rec_items])
    for it, code in zip(rec_items, codes):
        # termination: only prefixes that Filters.__init__ refuses may recurse forever when safe_name is called
        # directly (the guard of C07_safe_name_terminates, evaluated in Coq); not reachable through a Filters object
        if code == 1:
            ck.failure("safe-name-diverges", f"safe_name recursion does not end for a valid prefix: {it[1]}", {"op": it[1]})
    # Filters.__init__ itself: model of the validation vs the implementation; a degenerate prefix that is accepted
    # again is the regression of C07-F6
    fi_items = items_of("filters_init")
    fi_terms = [f"({conv_term(it[1]['conv'])}, {cbool(it[2]['ok'])})" for it in fi_items]
    for it in run_pred("filters_init", "list (str * str) * bool", "agree_filters_init", fi_items, fi_terms):
        if it[2]["ok"]:
            ck.failure("safe-name-degenerate-prefix", f"Filters accepts the safe prefixes of {it[1]['conv']}: safe_name can recurse forever",
                       {"op": it[1], "impl": it[2]})
        else:
            ck.failure("corr-filters-init", f"model and implementation disagree on Filters.__init__ for {it[1]['conv']}: impl={it[2]}",
                       {"op": it[1], "impl": it[2]})
    for it in fi_items:
        distinct.add(("filters_init", json.dumps(it[1]["conv"], sort_keys=True)))
    for it in items:
        if "err" in it[2] and it[2]["err"] != "RecursionError":
            ck.failure("unexpected-exception-" + it[2]["err"], f"safe_name {it[1]} raised {it[2]}", {"op": it[1], "impl": it[2]})

    # -- filters
    items = items_of("filter")
    terms = [f"({conv_term(it[1]['conv'])}, {FILTER_FN.index(it[1]['fn'])}%N, {cstr(it[1]['name'])}, {obs_sres(it[2])})" for it in items]
    for it in items:
        distinct.add(("filter", it[1]["fn"], it[1]["name"], json.dumps(it[1]["conv"], sort_keys=True)))
    for it in run_pred("filter", "list (str * str) * N * str * (N * str)", "agree_filter", items, terms):
        ck.failure(f"corr-filter-{it[1]['fn']}", f"model and implementation disagree on Filters.{it[1]['fn']}({it[1]['name']!r}) under {it[1]['conv']}: impl={it[2]}",
                   {"op": it[1], "impl": it[2]})
    ok_items = [it for it in items if "ok" in it[2] and it[1]["fn"] != "package_name"]
    codes = coq_codes("filter_usable", "str", "name_verdict", [cstr(it[2]["ok"]) for it in ok_items])
    for it, code in zip(ok_items, codes):
        case = dict(DEFAULT_CONV, **it[1]["conv"])[it[1]["fn"]][0]
        cls = {1: "keyword-not-reserved", 3: "keyword-leaks-" + it[2]["ok"],
               2: "original-case-non-identifier" if case == "originalCase" else "safe-name-not-identifier"}.get(code)
        if cls:
            ck.failure(cls, f"Filters.{it[1]['fn']}({it[1]['name']!r}) = {it[2]['ok']!r} under {it[1]['conv']}", {"op": it[1], "impl": it[2]})
    for it in items:
        if "err" in it[2] and it[2]["err"] != "RecursionError":
            ck.failure("unexpected-exception-" + it[2]["err"], f"Filters.{it[1]['fn']} {it[1]} raised {it[2]}", {"op": it[1], "impl": it[2]})

    # -- unique_name / rename attrs / rename classes
    items = items_of("unique_name")
    terms = [f"({cstr(it[1]['name'])}, {lstr(it[1]['reserved'])}, {cstr(it[2]['ok'])})" for it in items]
    for it in run_pred("unique_name", "str * list str * str", "agree_unique_name", items, terms):
        ck.failure("corr-unique-name", f"model and implementation disagree on unique_name{(it[1]['name'], it[1]['reserved'])}: impl={it[2]}", {"op": it[1], "impl": it[2]})

    items = [it for it in items_of("rename_attrs")]
    for it in items:
        if "err" in it[2]:
            if it[2]["err"] == "ValueError" and it[2].get("msg") == "no such name" and any(
                    not re.sub(r"[^A-Za-z0-9]", "", a["name"]) and a["name"] for a in it[1]["attrs"]):
                ck.failure("attr-name-without-unicode-name", f"Attr(name=...) of {[a['name'] for a in it[1]['attrs']]}: unicodedata.name raises ValueError",
                           {"op": it[1], "impl": it[2]})
            else:
                ck.failure("unexpected-exception-" + it[2]["err"], f"rename_duplicate_attributes {it[1]} raised {it[2]}", {"op": it[1], "impl": it[2]})
    items = [it for it in items if "ok" in it[2]]

    def init_attrs(it):
        return [dict(a, name=n) for a, n in zip(it[1]["attrs"], it[2]["init"])]

    terms = [f"({clist(init_attrs(it), attr_term, 'str * str * option str')}, {lstr(it[2]['ok'])})" for it in items]
    for it in items:
        distinct.add(("rename_attrs", json.dumps(it[1]["attrs"], sort_keys=True)))
    corr_bad = run_pred("rename_attrs", "list (str * str * option str) * list str", "agree_rename_attrs", items, terms)
    for it in corr_bad:
        ck.failure("corr-rename-attrs", f"model and implementation disagree on rename_duplicate_attributes({it[1]['attrs']}): impl={it[2]['ok']}", {"op": it[1], "impl": it[2]})
    corr_bad_ids = {it[0] for it in corr_bad}
    dup_items = [it for it in items if len(set(it[2]["fields"])) != len(it[2]["fields"]) and it[0] not in corr_bad_ids]
    if dup_items:
        cterms = [f"({conv_term(it[3]['conv'])}, {cbool(it[2]['enum'])}, {lstr(it[2]['ok'])}, {lstr(it[2]['fields'])})" for it in dup_items]
        codes = coq_codes("dupfields", "list (str * str) * bool * list str * list str", "classify_dup_fields", cterms)
        for k, (it, code) in enumerate(zip(dup_items, codes)):
            what = f"attrs {[(a['name'], a['tag'], a['ns']) for a in it[1]['attrs']]} -> names {it[2]['ok']} -> fields {it[2]['fields']}"
            if code == 1 and _pref_signature(it[2]["ok"], [a["tag"] for a in it[1]["attrs"]]):
                ck.failure("dup-field-preference-rename", what, {"op": it[1], "impl": it[2]})
            elif code == 2:
                ck.failure("dup-field-safe-adjust", what, {"op": it[1], "impl": it[2]})
            else:
                ck.failure("dup-field-unexplained", what + f" (model class {code})", {"op": it[1], "impl": it[2]})

    items = items_of("rename_classes")
    for it in items:
        if "err" in it[2]:
            ck.failure("unexpected-exception-" + it[2]["err"], f"RenameDuplicateClasses {it[1]} raised {it[2]}", {"op": it[1], "impl": it[2]})
    items = [it for it in items if "ok" in it[2]]
    def locs(it):
        return lstr([it[1]["classes"][i]["loc"] for i in it[2]["order"]])

    for it in items:
        it[1]["use_names"] = it[2]["use_names"]      # what the implementation decided; judged against the model's rule next
    uterms = [f"({cstr(it[1]['style'])}, {locs(it)}, {cbool(it[2]['use_names'])})" for it in items]
    for it in run_pred("use_names", "str * list str * bool", "agree_should_use_names", items, uterms):
        ck.failure("corr-should-use-names", f"RenameDuplicateClasses.should_use_names = {it[2]['use_names']} for style {it[1]['style']} and locations "
                   f"{sorted({c['loc'] for c in it[1]['classes']})}: the model (unique-name styles, or ONE source location) says otherwise",
                   {"op": it[1], "impl": it[2]})
    terms = [f"({cstr(it[1]['style'])}, {locs(it)}, {clist([it[1]['classes'][i] for i in it[2]['order']], cls_term, 'str * str * bool * bool')}, {lstr(it[2]['ok'])})"
             for it in items]
    for it in items:
        distinct.add(("rename_classes", json.dumps(it[1]["classes"], sort_keys=True), it[1]["style"]))
    corr_bad = run_pred("rename_classes", "str * list str * list (str * str * bool * bool) * list str", "agree_rename_classes", items, terms)
    for it in corr_bad:
        ck.failure("corr-rename-classes", f"model and implementation disagree on RenameDuplicateClasses({it[1]}): impl={it[2]['ok']}", {"op": it[1], "impl": it[2]})
    corr_bad_ids = {it[0] for it in corr_bad}
    def _same_module_dups(it):
        # compared by name: every class; compared by qualified name: classes of one namespace share a module
        if it[1]["use_names"]:
            return len(set(it[2]["class_names"])) != len(it[2]["class_names"])
        seen = set()
        for i, q, cn in zip(it[2]["order"], it[2]["qnames"], it[2]["class_names"]):
            # one module per source location (filenames) or per namespace (the namespace styles)
            where = it[1]["classes"][i]["loc"] if it[1]["style"] == "filenames" else (q.split("}")[0] if q.startswith("{") else "")
            key = (where, cn)
            if key in seen:
                return True
            seen.add(key)
        return False

    dup_items = [it for it in items if it[1]["use_names"] and _same_module_dups(it) and it[0] not in corr_bad_ids]
    for it in items:
        if not it[1]["use_names"] and it[0] not in corr_bad_ids and _same_module_dups(it):
            # the model agrees with the implementation here; judge the slugs of the qualified names directly
            slugs = [re.sub(r"[^a-z0-9]", "", q.lower()) for q in it[2]["qnames"]]
            if len(set(slugs)) != len(slugs) and not any(n.endswith("_abstract") for n in it[2]["ok"]):
                ck.failure("dup-class-numeric-suffix-not-fresh", f"classes {it[1]['classes']} -> {it[2]['qnames']}: two qualified names with one slug",
                           {"op": it[1], "impl": it[2]})
    if dup_items:
        cterms = [f"({conv_term(it[3]['conv'])}, {lstr(it[2]['ok'])}, {lstr(it[2]['class_names'])})" for it in dup_items]
        codes = coq_codes("dupclasses", "list (str * str) * list str * list str", "classify_dup_classes", cterms)
        for it, code in zip(dup_items, codes):
            what = f"classes {[(c['name'], c['abstract'], c['element']) for c in it[1]['classes']]} -> names {it[2]['ok']} -> class names {it[2]['class_names']}"
            if code == 1 and any(n.endswith("_abstract") for n in it[2]["ok"]):
                ck.failure("dup-class-abstract-suffix", what, {"op": it[1], "impl": it[2]})
            elif code == 2:
                ck.failure("dup-class-safe-adjust", what, {"op": it[1], "impl": it[2]})
            else:
                ck.failure("dup-class-unexplained", what, {"op": it[1], "impl": it[2]})

    pipe = pipeline_oracle(ck)
    for k in pipe["distinct"]:
        distinct.add(k)
    ck.cov["evaluations"] += pipe["runs"]
    ck.cov["pipeline"] = pipe["summary"]

    ck.cov["distinct_nontrivial"] = len(distinct)
    kinds = {}
    for m in meta:
        kinds[m["kind"]] = kinds.get(m["kind"], 0) + 1
    ck.cov["input_distribution"] = kinds
    ck.cov["rule"] = ("distinct (operation, input) pairs, every input reaches the modelled function; pipeline: distinct "
                      "(source set, options) runs that got past parsing (stage process or later)")
    ck.cov["samples"] = [{"op": ops[i], "impl": res[i]} for i in (0, len(ops) // 3, len(ops) // 2, len(ops) - 1)]
    return ck.finish(obligations=obligations, discharged=discharged,
                     checker_cmd="make -C coq Properties/C07.vo && coqc -Q coq XV coq/Properties/C07.v (Print Assumptions)",
                     trusted_base=TRUSTED_COMMON + [
                         "axioms: " + (", ".join(axioms) or "none (closed under the global context)"),
                         "harness/render_standin.py stands in for the six Jinja templates (validated against the committed fixture outputs "
                         "on every run); /verif/shims stand in for click, jinja2, toposort, requests; ruff is skipped",
                         "tools/gen_safe.py: interpreter tables for str.isalnum / XID_Start / XID_Continue / keyword.kwlist"],
                     assumptions=["config.substitutions is empty (the default); aliases/extensions are not modelled",
                                  "NFKC folding of non-ASCII identifiers is not modelled",
                                  "importability is judged on stand-in rendered modules, not on Jinja output"])
