"""Implementation-side driver of the C01 guard / correspondence layer (runs under
/venv/bin/python, PYTHONPATH=/repo).  JSON stdin -> JSON stdout.

in : {"jobs": [{"src", "name", "root", "instances": [recipes],
               "cases": [{"i", "writer", "handler", "config", "ns_map", "strict"}]}]}
out: {"dt_table": term, "jobs": [{"universe", "nodefault", "root", "unsupported",
               "cases": [{"value", "gen", "pevents", "parse", "equal", "table", "skip", ...}]}]}

For every case, on the REAL code: EventGenerator(obj) (the writer events), XmlSerializer.render with
the requested writer / config / user prefix map, XmlParser (through a recording NodeParser) with the
requested handler on that very text.  Everything the Coq models need is exported as Gallina terms of
Model/Bind.v: the metadata of the real XmlContext, the instance, the events at both seams, the
outcome, and the table of conversions the real converter performed (recorded by wrapping the
converter in THIS process; /repo is untouched).  No verdict is computed here.
"""
import json
import os
import sys
import traceback

sys.path.insert(0, os.path.dirname(os.path.abspath(__file__)))

import impl_parser as IP      # noqa: E402  (Model, Recorder, observe, record_doc, events_term ...)
import impl_eventgen as IE    # noqa: E402  (REC: converter.test / DataType.from_value recording)
import bind_export as bx      # noqa: E402
import genmodels              # noqa: E402

from xsdata.formats.dataclass.parsers.handlers import LxmlEventHandler, XmlEventHandler  # noqa: E402
from xsdata.formats.dataclass.serializers import XmlSerializer  # noqa: E402
from xsdata.formats.dataclass.serializers.config import SerializerConfig  # noqa: E402
from xsdata.formats.dataclass.serializers.mixins import EventGenerator  # noqa: E402
from xsdata.formats.dataclass.serializers.writers import LxmlEventWriter, XmlEventWriter  # noqa: E402

WRITERS = {"native": XmlEventWriter, "lxml": LxmlEventWriter}
HANDLERS = {"native": XmlEventHandler, "lxml": LxmlEventHandler}


def make_config(c):
    c = c or {}
    kw = {}
    if c.get("indent"):
        kw["indent"] = c["indent"]
    if "xml_declaration" in c:
        kw["xml_declaration"] = c["xml_declaration"]
    if c.get("ignore_default_attributes"):
        kw["ignore_default_attributes"] = True
    return SerializerConfig(**kw)


def ns_map_of(m):
    if m is None:
        return None
    return {(None if k == "" else ("" if k == "@empty" else k)): v for k, v in m.items()}


def eq(a, b):
    import dataclasses
    import math
    if isinstance(a, float) and isinstance(b, float):
        return (math.isnan(a) and math.isnan(b)) or a == b
    if type(a) is not type(b):
        return False
    if dataclasses.is_dataclass(a) and not isinstance(a, type):
        return all(eq(getattr(a, f.name), getattr(b, f.name)) for f in dataclasses.fields(a))
    if isinstance(a, (list, tuple)):
        return len(a) == len(b) and all(eq(x, y) for x, y in zip(a, b))
    if isinstance(a, dict):
        return a.keys() == b.keys() and all(eq(a[k], b[k]) for k in a)
    return a == b


def extra_table(ex, tests, dts):
    seen = set()
    test, dt = [], []
    for value, types, res in tests:
        try:
            p = ex.prim(value)
            tys = bx.clist(types, ex.ptype, "ptype")
        except bx.Unsupported:
            continue
        if (p, tys) not in seen:
            seen.add((p, tys))
            test.append(f"({p}, {tys}, {bx.cbool(res)})")
    for value, name, is_string in dts:
        try:
            p = ex.prim(value)
        except bx.Unsupported:
            continue
        if ("dt", p) not in seen:
            seen.add(("dt", p))
            dt.append(f"({p}, ({bx.cstr(name)}, {bx.cbool(is_string)}))")
    return bx.clist(test, str, "prim * list ptype * bool"), bx.clist(dt, str, "prim * (qname * bool)")


def table_term(model, tests, dts):
    rec = model.ex.rec
    d = [f"({bx.clist(k[0], str, 'ptype')}, {bx.copt(k[1], bx.cstr)}, {bx.Exporter.nsmap(dict(k[2]))}, {bx.cstr(k[3])}, {v})"
         for k, v in rec.deser.items()]
    s = [f"({bx.copt(k[0], bx.cstr)}, {k[1]}, {bx.cstr(v)})" for k, v in rec.ser.items()]
    t, dt = extra_table(model.ex, tests, dts)
    return (f"(mk_conv_table {bx.clist(d, str, 'list ptype * option str * nsmap * str * option prim')} "
            f"{bx.clist(s, str, 'option str * prim * str')} {t} {dt} dt_table)")


def nodefault_term(model):
    """init fields without a default, per class OF THE BINDING MODEL (the default class_factory raises for them).
    The shared exporter appends the generic classes AnyElement / DerivedElement to every universe; they are
    never built through class_factory (the parser model has VAny / VDerived values for them), so their
    required fields (DerivedElement.qname / value) are not part of the guard `nodefault_free`."""
    import dataclasses
    n = getattr(model, "n_model_classes", len(model.classes))
    rows = []
    for cl in model.classes[:n]:
        names = [f.name for f in dataclasses.fields(cl)
                 if f.init and f.default is dataclasses.MISSING and f.default_factory is dataclasses.MISSING]
        if names:
            rows.append(f"({bx.cN(model.ex.cid[cl])}, {bx.clist(names, bx.cstr, 'str')})")
    return bx.clist(rows, str, "cls * list str")


def run_job(job):
    out = {"universe": None, "nodefault": None, "root": None, "unsupported": None, "cases": []}
    try:
        model = IP.Model(job["src"], job["root"])
    except Exception as e:  # noqa
        out["unsupported"] = "module: " + repr(e)[:200]
        return out
    ex = model.ex
    tests, dts = [], []
    try:
        objs = [genmodels.build_instance(model.mod.__dict__, r) for r in job["instances"]]
        for case in job["cases"]:
            res = {"skip": None}
            out["cases"].append(res)
            obj = objs[case["i"]]
            try:
                res["value"] = ex.value_term(obj)
            except bx.Unsupported as e:
                res["skip"] = "value: " + str(e)
                continue
            cfg = make_config(case.get("config"))
            ns_map = ns_map_of(case.get("ns_map"))
            # 1. the writer events
            IE.REC.reset()
            IE.REC.on = True
            IP.Recorder.current = ex.rec
            ex.rec.bad = None
            try:
                try:
                    events = list(EventGenerator(context=model.ctx, config=cfg).generate(obj))
                    gerr = None
                except Exception as e:  # noqa
                    events, gerr = None, e
                # 2. the document
                try:
                    xml = XmlSerializer(context=model.ctx, config=cfg, writer=WRITERS[case.get("writer", "native")]).render(obj, ns_map=ns_map)
                    rerr = None
                except Exception as e:  # noqa
                    xml, rerr = None, e
            finally:
                IE.REC.on = False
                IP.Recorder.current = None
            tests += IE.REC.test
            dts += IE.REC.datatype
            try:
                res["gen"] = f"(EventGen.Ok {ex.wevents_term(events)})" if gerr is None else "(EventGen.Err EventGen." + IE.err_term(gerr)[5:]
            except bx.Unsupported as e:
                res["skip"] = "events: " + str(e)
                continue
            if xml is None:
                res["skip"] = "render: " + repr(rerr)[:200]
                res["render_exc"] = type(rerr).__name__
                continue
            res["xml"] = xml[:1500]
            # 3. the parser, through the requested handler, on that very text
            strict = case.get("strict", True)
            pcfg = (True, True, True) if strict else (True, False, False)
            back = {}

            parser = IP.TraceParser(config=IP.mk_config(pcfg), context=model.ctx, handler=HANDLERS[case.get("handler", "native")])

            def fn():
                back["v"] = parser.from_bytes(xml.encode(), model.root)
                return back["v"]
            obs = IP.observe(fn, ex)
            res["pcfg"] = list(pcfg)
            res["kind"] = obs["kind"]
            res["exc"] = obs.get("exc")
            res["msg"] = obs.get("msg")
            if obs.get("unsupported") or obs.get("obs_term") is None:
                res["skip"] = "parse observation: " + str(obs.get("unsupported") or obs.get("exc"))
                continue
            res["parse"] = obs["obs_term"]
            try:
                evs = IP.events_to_json(parser.events)
                if not IP.names_ok(evs):
                    raise ValueError("empty names")
                res["pevents"] = IP.events_term(evs)
            except Exception as e:  # noqa
                res["skip"] = "parser events: " + repr(e)[:200]
                continue
            res["equal"] = bool(obs["kind"] == "ok" and eq(obj, back.get("v")))
            res["user"] = bx.clist((ns_map or {}).items(), lambda kv: f"({bx.copt(kv[0], bx.cstr)}, {bx.cstr(kv[1])})", "option str * str")
        try:
            out["universe"] = ex.universe_term()
            out["nodefault"] = nodefault_term(model)
            out["root"] = bx.cN(ex.cid[model.root])
            out["table"] = table_term(model, tests, dts)
        except bx.Unsupported as e:
            out["unsupported"] = "universe: " + str(e)
    finally:
        model.close()
    return out


def main():
    req = json.load(sys.stdin)
    res = []
    for job in req["jobs"]:
        try:
            res.append(run_job(job))
        except Exception:  # noqa
            res.append({"universe": None, "unsupported": "crash: " + traceback.format_exc()[-1500:], "cases": []})
    json.dump({"dt_table": IP.dt_table_term(), "jobs": res}, sys.stdout)


if __name__ == "__main__":
    main()
