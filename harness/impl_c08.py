"""Implementation-side driver of the C08 handler correspondence (runs under /venv/bin/python, PYTHONPATH=/repo).

JSON in (stdin): {"jobs": [job, ...]}; JSON out: {"dt_table": term, "jobs": [result, ...]}
job: {"id": k, "seed": int, "model": {"gen": {"slices": [...], "prims": [...]}} | {"extra": name} | {"c08": name},
      "n_docs": int}

For one job, all on the REAL xsdata code:
  * build a binding model + instance (harness/genmodels.py / impl_parser.EXTRA / C08_EXTRA below), render it,
  * read the rendered document into a plain element structure (Clark names, attributes, text, tail, own xmlns
    declarations) and DECORATE it (seeded): unused declarations, redundant redeclarations, shadowing of unused
    prefixes, default namespace on/off (xmlns="..." / xmlns=""), fresh prefixes, declarations on wrapper elements and
    below union elements, unknown (skipped) subtrees with their own nested declarations,
  * PRINT the structure with the printer below (the structure, not any parser's reading of it, is what goes to Coq),
  * run RecordParser with both real handlers on the bytes, the lxml handler on an lxml tree, the native handler on an
    ElementTree element; keep the recorded events, the outcome and the prefix recorder map,
  * export everything as Gallina terms of Model/Bind.v / Model/Reader.v (record `rcase` of Model/ReaderCorr.v).
"""
import io
import json
import os
import random
import sys
import traceback

sys.path.insert(0, os.path.dirname(os.path.abspath(__file__)))

import impl_parser as IP  # noqa: E402  (patches the converter with the call recorder)
from bind_export import Exporter, Unsupported, cN, cbool, clist, copt, cstr  # noqa: E402

from lxml import etree as LET  # noqa: E402
from xml.etree import ElementTree as ET  # noqa: E402

from xsdata.formats.dataclass.parsers.bases import RecordParser  # noqa: E402
from xsdata.formats.dataclass.parsers.handlers import LxmlEventHandler, XmlEventHandler  # noqa: E402

XML_NS = "http://www.w3.org/XML/1998/namespace"

# ------------------------------------------------------------------ hand-written models (shapes the generator rarely gives)
C08_EXTRA = {
    # a QName two levels below a union element: the native handler reads the prefix map of the UNION element for
    # every descendant (finding C08-F7)
    "union_qname": {
        "src": '''
@dataclass
class D:
    x: Optional[QName] = field(default=None, metadata={"type": "Element"})

@dataclass
class B:
    d: Optional[D] = field(default=None, metadata={"type": "Element"})

@dataclass
class C:
    d: Optional[D] = field(default=None, metadata={"type": "Element"})
    e: Optional[int] = field(default=None, metadata={"type": "Element"})

@dataclass
class A:
    u: Optional[Union[B, C]] = field(default=None, metadata={"type": "Element"})
''', "root": "A",
        "docs": ['<A xmlns:r="urn:r"><u xmlns:p="urn:p"><d xmlns:z="urn:z" xmlns:r="urn:r2"><x>r:k</x></d></u></A>',
                 '<A xmlns:r="urn:r"><u xmlns:p="urn:p"><d xmlns:z="urn:z"><x>z:k</x></d></u></A>',
                 '<A xmlns:r="urn:r"><u xmlns:p="urn:p"><d><x xmlns:z="urn:z">z:k</x></d></u></A>',
                 '<A xmlns:r="urn:r" xmlns:z="urn:z"><u><d><x>z:k</x></d></u></A>',
                 '<A><u xmlns:z="urn:z"><d><x>z:k</x></d></u></A>']},
    # QName items inside a wrapper element that carries the declaration (fixed by b1251c4)
    "wrapper_qname": {
        "src": '''
@dataclass
class WQ:
    items: list[QName] = field(default_factory=list, metadata={"type": "Element", "name": "item", "wrapper": "items"})
    q: Optional[QName] = field(default=None, metadata={"type": "Attribute"})
''', "root": "WQ",
        "docs": ['<WQ><items xmlns:p="urn:p"><item>p:a</item><item xmlns:p="urn:p2">p:b</item></items></WQ>',
                 '<WQ xmlns:p="urn:p" q="p:k"><items xmlns="urn:d"><item xmlns="">a</item></items></WQ>',
                 '<WQ xmlns="" xmlns:p="urn:p"><items><item xmlns="urn:x" xmlns:p="urn:p">p:a</item><item>p:b</item></items></WQ>']},
    # skipped subtrees with nested declarations, then a QName after them
    "skip_qname": {
        "src": '''
@dataclass
class SK:
    a: Optional[QName] = field(default=None, metadata={"type": "Element"})
    b: Optional[QName] = field(default=None, metadata={"type": "Element"})
''', "root": "SK", "cfg": (False, False, False),
        "docs": ['<SK xmlns:p="urn:p"><a>p:x</a><zz xmlns:p="urn:other"><yy xmlns:q="urn:q"><ww/></yy><vv/></zz><b>p:y</b></SK>',
                 '<SK xmlns:p="urn:p"><zz xmlns="urn:d"><yy xmlns=""/></zz><b xmlns:p="urn:p3">p:y</b></SK>']},
    # wildcard / attributes: parse_any_attribute reads the map
    "any_attrs": {
        "src": '''
@dataclass
class AW:
    attrs: dict[str, str] = field(default_factory=dict, metadata={"type": "Attributes"})
    w: list[object] = field(default_factory=list, metadata={"type": "Wildcard"})
''', "root": "AW",
        "docs": ['<AW xmlns:p="urn:p" k="p:v" j="q:v" h="p://x"><c xmlns:q="urn:q" m="q:n" n="p:n"><d xmlns:p="urn:p2" o="p:o"/></c></AW>',
                 '<AW xmlns="urn:d" k="v"><c xmlns="" m=":n"/></AW>']},
}


# prefix SCOPING: descendants re-bind prefixes (and the default namespace) that an ancestor binds to another uri; QName
# values and xsi:type values before, inside and AFTER such subtrees use whatever binding is in scope there
C08_EXTRA["scoped_qname"] = {
    "src": '''
class QE(Enum):
    OA = QName("{urn:outer}a")
    IA = QName("{urn:inner}a")
    XA = QName("{urn:x}a")
    MA = QName("{urn:m}a")

@dataclass
class Entry:
    class Meta:
        name = "entry"
        namespace = "urn:m"
    kind: Optional[QName] = field(default=None, metadata={"type": "Attribute"})
    en: Optional[QE] = field(default=None, metadata={"type": "Attribute"})
    ens: list[QE] = field(default_factory=list, metadata={"type": "Element"})
    ref: list[QName] = field(default_factory=list, metadata={"type": "Element"})
    sub: list["Entry"] = field(default_factory=list, metadata={"type": "Element"})

@dataclass
class Root:
    class Meta:
        name = "root"
        namespace = "urn:m"
    entry: list[Entry] = field(default_factory=list, metadata={"type": "Element"})
    x: list[object] = field(default_factory=list, metadata={"type": "Element"})
    last: Optional[QName] = field(default=None, metadata={"type": "Element"})
''', "root": "Root", "gen": "scoped"}

XS_NS = "http://www.w3.org/2001/XMLSchema"
XSI_TYPE_Q = "{http://www.w3.org/2001/XMLSchema-instance}type"
SCOPE_URIS = ["urn:outer", "urn:inner", "urn:x", XS_NS, "urn:m"]


def scoped_semantic(r):
    """a document as a semantic tree: element = (local name, [(prefix name | None, uri)], values, children);
    a QName value is (prefix name | None, local) and means whatever that prefix is bound to at its element"""
    names = ["p", "q", "k"]

    def value(scope):
        keys = [k for k in scope if scope[k]] + ([None] if not scope.get(None) else [])
        k = r.choice(keys)
        return [k, r.choice(["a", "b", "c.d", "e-f"])]

    def entry(scope, depth):
        decls = []
        sc = dict(scope)
        if r.random() < 0.55:
            k = r.choice([n for n in sc if n is not None] or names)       # re-bind a prefix that is in scope
            u = r.choice([x for x in SCOPE_URIS if x != sc.get(k)])
            decls.append([k, u])
            sc[k] = u
        if r.random() < 0.3:
            k = r.choice(names)
            if k not in [d[0] for d in decls]:
                u = r.choice(SCOPE_URIS)
                decls.append([k, u])
                sc[k] = u
        if r.random() < 0.25:
            u = r.choice(["urn:m", "urn:inner", ""]) if sc.get(None) else r.choice(["urn:m", "urn:inner"])
            decls.append([None, u])
            sc[None] = u
        subs = [entry(sc, depth + 1) for _ in range(r.choice([0, 0, 1, 2]) if depth < 2 else 0)]
        def enum_value():
            keys = [k for k in sc if k is not None and sc[k] in ("urn:outer", "urn:inner", "urn:x", "urn:m")]
            return [r.choice(keys), "a"] if keys else None
        return {"name": "entry", "decls": decls, "kind": value(sc) if r.random() < 0.7 else None,
                "en": enum_value() if r.random() < 0.6 else None, "ens": [v for v in [enum_value() for _ in range(r.choice([0, 1, 2]))] if v],
                "refs": [value(sc) for _ in range(r.choice([0, 1, 2]))], "subs": subs}

    root_scope = {"p": "urn:outer", "t": XS_NS}
    root_decls = [["p", "urn:outer"], ["t", XS_NS]]
    if r.random() < 0.5:
        root_decls.append([None, "urn:m"])
        root_scope[None] = "urn:m"
    entries = [entry(root_scope, 0) for _ in range(r.choice([1, 2, 3]))]
    xs = [r.choice([["int", "17"], ["boolean", "1"], ["boolean", "0"], ["string", "s 1"], ["int", "0"]]) for _ in range(r.choice([0, 1, 2]))]
    return {"decls": root_decls, "entries": entries, "xs": xs, "last": value(root_scope) if r.random() < 0.8 else None}


def scoped_struct(sem, rename):
    """spell the semantic tree; with rename=True every declared prefix gets a fresh name (declaration and uses
    together): same meaning, other prefixes"""
    counter = [0]

    def alias(name):
        if not rename:
            return name
        counter[0] += 1
        return "n%d" % counter[0]

    def spell(v, env):
        return v[1] if v[0] is None else env[v[0]] + ":" + v[1]

    def bind(decls, env):
        env = dict(env)
        out = []
        for k, u in decls:
            if k is None:
                out.append([None, u])
            else:
                env[k] = alias(k)
                out.append([env[k], u])
        return out, env

    def entry(e, env, tag):
        decls, env = bind(e["decls"], env)
        kids = [{"tag": "{urn:m}ref", "decls": [], "attrs": [], "text": spell(v, env), "kids": [], "tail": None} for v in e["refs"]]
        kids += [{"tag": "{urn:m}ens", "decls": [], "attrs": [], "text": spell(v, env), "kids": [], "tail": None} for v in e.get("ens", [])]
        kids += [entry(x, env, "{urn:m}sub") for x in e["subs"]]
        attrs = ([["kind", spell(e["kind"], env)]] if e["kind"] else []) + ([["en", spell(e["en"], env)]] if e.get("en") else [])
        return {"tag": tag, "decls": decls, "attrs": attrs, "text": None,
                "kids": kids, "tail": None}

    decls, env = bind(sem["decls"], {})
    kids = [entry(e, env, "{urn:m}entry") for e in sem["entries"]]
    kids += [{"tag": "{urn:m}x", "decls": [], "attrs": [[XSI_TYPE_Q, env["t"] + ":" + ty]], "text": val, "kids": [], "tail": None}
             for ty, val in sem["xs"]]
    if sem["last"]:
        kids.append({"tag": "{urn:m}last", "decls": [], "attrs": [], "text": spell(sem["last"], env), "kids": [], "tail": None})
    return {"tag": "{urn:m}root", "decls": decls, "attrs": [], "text": None, "kids": kids, "tail": None}


# ------------------------------------------------------------------ structures
def struct_of(e, parent_nsmap):
    own = [[p, u] for p, u in e.nsmap.items() if parent_nsmap.get(p) != u or p not in parent_nsmap]
    return {"tag": e.tag, "decls": own, "attrs": [[k, v] for k, v in e.attrib.items()], "text": e.text or None,
            "kids": [struct_of(c, e.nsmap) for c in e if isinstance(c.tag, str)], "tail": e.tail or None}


def split_clark(q):
    if q.startswith("{"):
        u, _, l = q[1:].partition("}")
        return u, l
    return None, q


def walk(n):
    yield n
    for k in n["kids"]:
        yield from walk(k)


def in_scope(path):
    """prefix -> uri in scope at the last element of path (own declarations included)"""
    m = {}
    for n in path:
        for p, u in n["decls"]:
            m[p] = u
    return m


def decorate(r, root, allow_unknown):
    """seeded, meaning-preserving for names (the printer re-chooses every lexical prefix); QName CONTENT keeps the
    prefixes it was written with, so shadowing only touches prefixes introduced here"""
    what = []
    fresh = [0]

    def paths(n, pre):
        p = pre + [n]
        yield p
        for k in n["kids"]:
            yield from paths(k, p)

    all_paths = list(paths(root, []))
    mine = set()
    for p in all_paths:
        n = p[-1]
        k = r.random()
        own = {d[0] for d in n["decls"]}
        scope = in_scope(p)
        if k < 0.18:
            fresh[0] += 1
            pfx = "u%d" % fresh[0]
            n["decls"].insert(r.randrange(len(n["decls"]) + 1), [pfx, "urn:unused:%d" % fresh[0]])
            mine.add(pfx)
            what.append("unused")
        elif k < 0.30:
            cands = [(q, u) for q, u in in_scope(p[:-1]).items() if q not in own and q is not None and u]
            if cands:
                q, u = r.choice(cands)
                n["decls"].append([q, u])
                what.append("redundant")
        elif k < 0.40:
            cands = [q for q in in_scope(p[:-1]) if q in mine and q not in own]
            if cands:
                q = r.choice(cands)
                n["decls"].append([q, "urn:shadow:%d" % r.randrange(3)])
                what.append("shadow")
        elif k < 0.52:
            u, _ = split_clark(n["tag"])
            if u and None not in own and scope.get(None) != u:
                n["decls"].insert(r.randrange(len(n["decls"]) + 1), [None, u])
                what.append("default-on")
        elif k < 0.58:
            if None not in own and scope.get(None):
                n["decls"].append([None, ""])
                what.append("default-off")
        elif k < 0.70:
            u, _ = split_clark(n["tag"])
            if u:
                fresh[0] += 1
                pfx = "f%d" % fresh[0]
                n["decls"].append([pfx, u])
                what.append("fresh-prefix")
    if allow_unknown:
        hosts = [p[-1] for p in all_paths]
        inner = [h for h in hosts if h["kids"] or h is root]
        for _ in range(r.choice([0, 1, 1, 2])):
            h = r.choice(inner if r.random() < 0.85 else hosts)
            sub = {"tag": r.choice(["zz", "{urn:unk}zz", "{urn:a}zz9"]), "decls": [["k", "urn:k"]] if r.random() < 0.6 else [],
                   "attrs": [["za", "k:v"]] if r.random() < 0.4 else [], "text": r.choice([None, "t", " "]),
                   "kids": [{"tag": "{urn:k2}deep", "decls": [["m", "urn:m"], [None, "urn:k2"]], "attrs": [], "text": None,
                             "kids": [{"tag": "{urn:k2}deeper", "decls": [], "attrs": [], "text": "m:x", "kids": [], "tail": None}],
                             "tail": r.choice([None, "\n"])},
                            {"tag": "deep2", "decls": [], "attrs": [], "text": None, "kids": [], "tail": None}][:r.randrange(3)],
                   "tail": None}
            h["kids"].insert(r.randrange(len(h["kids"]) + 1), sub)
            what.append("unknown-subtree")
    return what


# ------------------------------------------------------------------ printer
def esc_text(s):
    return s.replace("&", "&amp;").replace("<", "&lt;").replace(">", "&gt;").replace("\r", "&#13;")


def esc_attr(s):
    out = []
    for ch in s:
        out.append({"&": "&amp;", "<": "&lt;", '"': "&quot;", "\n": "&#10;", "\r": "&#13;", "\t": "&#9;"}.get(ch, ch))
    return "".join(out)


def print_doc(r, root):
    """prints the structure; completes the declarations it needs (appended to the element's own list)"""
    out = []
    counter = [0]

    def emit(n, scope):
        scope = dict(scope)
        for p, u in n["decls"]:
            scope[p] = u

        def need(uri, for_attr):
            if uri == XML_NS:
                return "xml"
            c = [p for p, u in scope.items() if u == uri and (p is not None or not for_attr)]
            if c:
                return r.choice(c)
            counter[0] += 1
            p = "g%d" % counter[0]
            while p in scope:
                counter[0] += 1
                p = "g%d" % counter[0]
            n["decls"].append([p, uri])
            scope[p] = uri
            return p

        u, l = split_clark(n["tag"])
        if u:
            p = need(u, False)
            name = l if p is None else p + ":" + l
        else:
            if scope.get(None):
                n["decls"].append([None, ""])
                scope[None] = ""
            name = l
        attrs = []
        for k, v in n["attrs"]:
            au, al = split_clark(k)
            attrs.append(((need(au, True) + ":" + al) if au else al, v))
        out.append("<" + name)
        for p, uri in n["decls"]:
            out.append(" xmlns%s=\"%s\"" % ("" if p is None else ":" + p, esc_attr(uri)))
        for k, v in attrs:
            out.append(" %s=\"%s\"" % (k, esc_attr(v)))
        if n["text"] is None and not n["kids"] and r.random() < 0.5:
            out.append("/>")
        else:
            out.append(">")
            if n["text"]:
                out.append(esc_text(n["text"]))
            for k in n["kids"]:
                emit(k, scope)
            out.append("</" + name + ">")
        if n["tail"]:
            out.append(esc_text(n["tail"]))

    tail = root["tail"]
    root["tail"] = None
    emit(root, {})
    root["tail"] = tail
    return "".join(out)


def plain(n):
    """what an XML reader must see: names, attributes, text, tail (no declarations)"""
    return [n["tag"], sorted(map(tuple, n["attrs"])), n["text"], [plain(k) for k in n["kids"]], n["tail"]]


def plain_lxml(e):
    return [e.tag, sorted(e.attrib.items()), e.text or None, [plain_lxml(c) for c in e if isinstance(c.tag, str)], e.tail or None]


def doc_term(n):
    return (f"(XE {cstr(n['tag'])} {clist(n['decls'], lambda d: f'({copt(d[0], cstr)}, {cstr(d[1])})', 'option str * str')} "
            f"{clist(n['attrs'], lambda kv: f'({cstr(kv[0])}, {cstr(kv[1])})', 'qname * str')} {copt(n['text'], cstr)} "
            f"{clist(n['kids'], doc_term, 'xelem')} {copt(n['tail'], cstr)})")


# ------------------------------------------------------------------ runs
def record(model, source, cfg, handler):
    parser = RecordParser(config=IP.mk_config(cfg), context=model.ctx, handler=handler)
    obs = IP.observe(lambda: parser.parse(source() if callable(source) else source, model.root), model.ex)
    try:
        obs["events"] = IP.events_to_json(parser.events)
        obs["events_term"] = IP.events_term(obs["events"])
    except Exception as e:  # noqa
        obs["events"] = None
        obs["unsupported"] = obs.get("unsupported") or f"events: {e!r}"
    obs["rec_term"] = copt(parser.ns_map if obs["kind"] == "ok" else None, Exporter.nsmap)
    return obs


def summary(o):
    return {"kind": o["kind"], "exc": o.get("exc"), "msg": o.get("msg"), "value": o.get("value_repr")}


def one_case(r, model, st, cfg, what, info):
    text = print_doc(r, st)
    data = text.encode()
    case = {"xml": text, "cfg": list(cfg), "what": what, "doc": doc_term(st)}
    try:
        back = plain_lxml(LET.fromstring(data))
    except Exception as e:  # noqa
        case["harness_problem"] = f"printed document is not well-formed: {e!r}"
        return case
    root_plain = plain(st)
    root_plain[4] = None
    if back != root_plain:
        case["harness_problem"] = "printed document does not read back as the structure"
        return case
    runs = {
        "native": record(model, lambda: io.BytesIO(data), cfg, XmlEventHandler),
        "lxml": record(model, lambda: io.BytesIO(data), cfg, LxmlEventHandler),
        "lxml_tree": record(model, lambda: LET.fromstring(data), cfg, LxmlEventHandler),
        "et": record(model, lambda: ET.fromstring(data), cfg, XmlEventHandler),
    }
    bad = [f"{k}: {o['unsupported']}" for k, o in runs.items() if o.get("unsupported")]
    bad += [f"{k}: timeout" for k, o in runs.items() if o["kind"] == "timeout"]
    bad += [f"{k}: outcome {o.get('exc')} not expressible" for k, o in runs.items() if o.get("obs_term") is None and o["kind"] != "timeout"]
    if bad:
        case["unsupported"] = "; ".join(bad)[:400]
        case["summary"] = {k: summary(o) for k, o in runs.items()}
        return case
    n, l, lt, e = runs["native"], runs["lxml"], runs["lxml_tree"], runs["et"]
    case["term"] = ("(mk_rcase {cfg} tbl_{id} u_{id} (Some {root}) {doc} {ne} {no} {nr} {le} {lo} {lr} {lte} {ee} {eo})".format(
        cfg=f"(mk_pconfig {cbool(cfg[0])} {cbool(cfg[1])} {cbool(cfg[2])} nd_{info['id']})", id=info["id"], root=info["root"],
        doc=case["doc"], ne=n["events_term"], no=n["obs_term"], nr=n["rec_term"], le=l["events_term"], lo=l["obs_term"],
        lr=l["rec_term"], lte=lt["events_term"], ee=e["events_term"], eo=e["obs_term"]))
    case["summary"] = {k: summary(o) for k, o in runs.items()}
    case["n_events"] = len(n["events"] or [])
    case["lxml_tree_same_outcome"] = (lt.get("obs_term") == l.get("obs_term"))
    return case


def build(job):
    spec = job["model"]
    if "c08" in spec:
        e = C08_EXTRA[spec["c08"]]
        model = IP.Model(IP.full_source(e["src"]), e["root"])
        info = {"id": job["id"], "seed": job["seed"], "model": spec, "source": model.src}
        info["universe"] = model.ex.universe_term()
        info["nodefault"] = model.nodefault_term()
        info["root"] = cN(model.ex.cid[model.root])
        r = random.Random(job["seed"])
        if e.get("gen") == "scoped":
            docs = [(print_doc(r, scoped_struct(scoped_semantic(r), r.random() < 0.3)), (True, False, False)) for _ in range(job.get("n_docs", 6))]
        else:
            docs = [(d, tuple(e.get("cfg", (True, False, False)))) for d in e["docs"]]
        return r, model, info, docs
    r, model, obj, info, data, base = IP.prepare(job)
    if data is None:
        return r, model, info, None
    # below the models: declared encodings x source kinds; TreeSerializer against the writers
    if job.get("extras", True):
        xml = data.decode()
        info["enc"] = [dict(x, doc=xml[:300]) for x in encoding_checks(model.ctx, model.root, xml) if x["why"]]
        info["enc_n"] = 7 * 2 * 4
        info["enc_nonascii"] = any(ord(ch) > 127 for ch in xml)
        maps = [None, {"pp": "urn:a"}, {"qq": "urn:unused"}]
        info["tree"] = [dict(t, ns_map=m) for m in maps for t in [tree_checks(model.ctx, obj, m)] if t]
        info["tree_n"] = len(maps)
    return r, model, info, [(data, None)]


CHUNK_SRC = '''
@dataclass
class M:
    content: list[object] = field(default_factory=list, metadata={"type": "Wildcard", "namespace": "##any", "mixed": True})
'''


def chunk_job(job):
    """finding C08-F8 / C11-F1: both handlers read element.tail at the `end` event of iterparse; a tail that straddles
    the tokeniser's read boundary (16 KiB xml.etree, 32 KiB lxml) is not there yet"""
    model = IP.Model(IP.full_source(CHUNK_SRC), "M")
    from xsdata.formats.dataclass.parsers import XmlParser
    out = []
    for pad in job["pads"]:
        doc = ("<M>" + "x" * pad + "<b/>" + "TAIL" * 6 + "</M>").encode()
        res = {}
        for name, h in (("native", XmlEventHandler), ("lxml", LxmlEventHandler)):
            try:
                o = XmlParser(context=model.ctx, handler=h).from_bytes(doc, model.root)
                res[name] = [c if isinstance(c, str) else [c.qname, c.tail] for c in o.content][1:]
            except Exception as e:  # noqa
                res[name] = "exc " + type(e).__name__
        out.append({"pad": pad, "native": res["native"], "lxml": res["lxml"], "equal": res["native"] == res["lxml"],
                    "complete": res["native"] == [["b", "TAIL" * 6]] and res["lxml"] == [["b", "TAIL" * 6]]})
    model.close()
    return {"id": job["id"], "seed": job["seed"], "model": job["model"], "cases": [], "chunk": out}


ENC_SRC = '''
@dataclass
class T:
    a: Optional[str] = field(default=None, metadata={"type": "Attribute"})
    t: list[str] = field(default_factory=list, metadata={"type": "Element"})
'''
ENC_DOCS = ['<T a="\u00e9\u20ac\u00df\u4e2d\U0001f600 &amp; &lt;"><t>na\u00efve caf\u00e9 \u20ac5 \u2014 \u4e2d</t><t>plain</t><t>\u00a0\u00ff\u0152</t></T>',
            '<T a="ascii only"><t>\u00e9</t></T>']
XML_DECL = __import__("re").compile(r"^\s*<\?xml[^>]*\?>\s*")


def encodings_of(xml):
    """the same document in several declared encodings (characters the encoding lacks become character references)"""
    body = XML_DECL.sub("", xml)

    def decl(enc):
        return '<?xml version="1.0" encoding="%s"?>\n' % enc
    return [("utf-8-declared", (decl("UTF-8") + body).encode("utf-8")),
            ("utf-8-undeclared", body.encode("utf-8")),
            ("utf-8-bom", b"\xef\xbb\xbf" + body.encode("utf-8")),
            ("utf-16-bom", (decl("UTF-16") + body).encode("utf-16")),
            ("iso-8859-1", (decl("ISO-8859-1") + body).encode("iso-8859-1", "xmlcharrefreplace")),
            ("windows-1252", (decl("windows-1252") + body).encode("cp1252", "xmlcharrefreplace")),
            ("us-ascii", (decl("US-ASCII") + body).encode("ascii", "xmlcharrefreplace"))]


def encoding_checks(ctx, clazz, xml):
    """source kinds x declared encodings x both handlers: the same object as the str source (plumbing into the
    tokenisers: oracle only)"""
    import pathlib
    import shutil
    import tempfile
    import impl_binding_lib as B
    from xsdata.formats.dataclass.parsers import XmlParser
    out = []
    try:
        ref = XmlParser(context=ctx, handler=LxmlEventHandler).from_string(XML_DECL.sub("", xml), clazz)
    except Exception as e:  # noqa
        return [{"variant": "reference", "handler": "lxml", "source": "str", "why": type(e).__name__ + ": " + str(e)[:120]}]
    tmpd = tempfile.mkdtemp(prefix="c08-enc-")
    try:
        for vname, data in encodings_of(xml):
            path = os.path.join(tmpd, vname + ".xml")
            with open(path, "wb") as f:
                f.write(data)
            for hname, h in (("native", XmlEventHandler), ("lxml", LxmlEventHandler)):
                def P():
                    return XmlParser(context=ctx, handler=h)
                for sname, fn in (("bytes", lambda: P().from_bytes(data, clazz)), ("fileobj", lambda: P().parse(io.BytesIO(data), clazz)),
                                  ("path", lambda: P().from_path(pathlib.Path(path), clazz)), ("strpath", lambda: P().parse(path, clazz))):
                    try:
                        d = B.eq(ref, fn())
                        why = None if d is None else "differs at " + d
                    except Exception as e:  # noqa
                        why = type(e).__name__ + ": " + str(e)[:120]
                    out.append({"variant": vname, "handler": hname, "source": sname, "why": why})
    finally:
        shutil.rmtree(tmpd, ignore_errors=True)
    return out


def nsmaps_of(root):
    return [[e.tag, sorted((p or "", u) for p, u in e.nsmap.items())] for e in root.iter() if isinstance(e.tag, str)]


def tree_checks(ctx, obj, ns_map=None):
    """TreeSerializer against both text writers: same in-scope namespace bindings at every element as the document
    of the lxml writer (same sink), and the tree reads back as the same object as both documents"""
    import impl_binding_lib as B
    from xsdata.formats.dataclass.parsers import XmlParser
    from xsdata.formats.dataclass.serializers import TreeSerializer, XmlSerializer
    from xsdata.formats.dataclass.serializers.writers import LxmlEventWriter, XmlEventWriter
    res = {}
    try:
        tree = TreeSerializer(context=ctx).render(obj, ns_map=dict(ns_map) if ns_map else None)
        lx = XmlSerializer(context=ctx, writer=LxmlEventWriter).render(obj, ns_map=dict(ns_map) if ns_map else None)
        nat = XmlSerializer(context=ctx, writer=XmlEventWriter).render(obj, ns_map=dict(ns_map) if ns_map else None)
    except Exception as e:  # noqa
        return {"render_exc": type(e).__name__ + ": " + str(e)[:150]}
    troot = tree.getroot() if hasattr(tree, "getroot") else tree
    a, b = nsmaps_of(troot), nsmaps_of(LET.fromstring(lx.encode()))
    if a != b:
        k = next((i for i, (x, y) in enumerate(zip(a, b)) if x != y), min(len(a), len(b)))
        res["nsmaps_differ"] = {"at": k, "tree": a[k] if k < len(a) else None, "lxml_writer": b[k] if k < len(b) else None}
    tree_bytes = LET.tostring(troot)          # before parsing: the lxml handler clears the elements it has read
    back = {}
    for name, fn in (("tree_text", lambda: XmlParser(context=ctx, handler=LxmlEventHandler).from_bytes(tree_bytes, type(obj))),
                     ("tree", lambda: XmlParser(context=ctx, handler=LxmlEventHandler).parse(tree, type(obj))),
                     ("lxml_writer", lambda: XmlParser(context=ctx, handler=LxmlEventHandler).from_string(lx, type(obj))),
                     ("native_writer", lambda: XmlParser(context=ctx, handler=LxmlEventHandler).from_string(nat, type(obj)))):
        try:
            back[name] = ("ok", fn())
        except Exception as e:  # noqa
            back[name] = ("exc", type(e).__name__)
    ref = back["lxml_writer"]
    for name in ("tree", "tree_text", "native_writer"):
        v = back[name]
        if v[0] != ref[0] or (v[0] == "exc" and v[1] != ref[1]):
            res.setdefault("parse_differs", {})[name] = f"{v[0]} {v[1] if v[0] == 'exc' else ''} vs {ref[0]} {ref[1] if ref[0] == 'exc' else ''}"
        elif v[0] == "ok":
            d = B.eq(ref[1], v[1])
            if d is not None:
                res.setdefault("parse_differs", {})[name] = "differs at " + d
    if res:
        res["lxml_writer_xml"] = lx[:1500]
        res["tree_xml"] = tree_bytes.decode()[:1500]
    return res


def enc_job(job):
    model = IP.Model(IP.full_source(ENC_SRC), "T")
    out = []
    for d in ENC_DOCS:
        out += [dict(x, doc=d[:200]) for x in encoding_checks(model.ctx, model.root, d)]
    model.close()
    return {"id": job["id"], "seed": job["seed"], "model": job["model"], "cases": [], "enc": out}


# ------------------------------------------------------------------ entities of the internal subset, XInclude mode
def entity_docs(r, n):
    """documents over ENC_SRC's model T with an internal DTD subset declaring general entities, used in character data and
    in attribute values next to predefined entities and character references; returns (document, expanded document)"""
    out = []
    for _ in range(n):
        ents = {}
        for name in r.sample(["co", "e1", "long-name", "x.y", "_u"], r.randint(1, 3)):
            ents[name] = r.choice(["ACME", "a b", "\u00e9t\u00e9", "", "&#x20AC;5", "q'uote"])
        if r.random() < 0.4 and ents:
            inner = r.choice(list(ents))
            ents["nest"] = "[&%s;]" % inner            # an entity whose replacement text refers to another one

        def expand(name, depth=0):
            v = ents[name]
            for k in ents:
                if k != name and depth < 3:
                    v = v.replace("&%s;" % k, expand(k, depth + 1))
            return v

        def text():
            src, exp = [], []
            for _ in range(r.randint(1, 5)):
                k = r.random()
                if k < 0.4:
                    nm = r.choice(list(ents))
                    src.append("&%s;" % nm)
                    exp.append(expand(nm))
                elif k < 0.55:
                    ref = r.choice(["&amp;", "&lt;", "&gt;", "&quot;", "&apos;", "&#233;", "&#x4E2D;"])
                    src.append(ref)
                    exp.append(ref)
                else:
                    lit = r.choice(["Prices of ", " and ", "x", " ", "tail.", "\u00df"])
                    src.append(lit)
                    exp.append(lit)
            return "".join(src), "".join(exp)
        a, ax = text()
        ts = [text() for _ in range(r.randint(1, 3))]
        subset = "".join('<!ENTITY %s "%s">' % (k, v.replace('"', "&#34;")) for k, v in ents.items())
        body = '<T a="%s">%s</T>'
        doc = "<!DOCTYPE T [%s]>" % subset + body % (a.replace('"', "&quot;"), "".join("<t>%s</t>" % t for t, _ in ts))
        plain = body % (ax.replace('"', "&quot;"), "".join("<t>%s</t>" % x for _, x in ts))
        out.append((doc, plain))
    return out


XI_DOCS = [  # (document, document an XInclude-unaware / comment-free reading must equal), no xi:include element: the MODE is under test
    ('<T a="v"><t>x<!--c-->y<?p d?>w</t><t><!--lead-->z</t></T>', '<T a="v"><t>xyw</t><t>z</t></T>'),
    ('<!--pre--><T a="1"><t>a</t><!--between--><t>b<!--in-->c</t></T><!--post-->', '<T a="1"><t>a</t><t>bc</t></T>'),
    ('<T><t>plain</t></T>', '<T><t>plain</t></T>')]


def plumbing_job(job):
    import pathlib
    import shutil
    import tempfile
    import impl_binding_lib as B
    from xsdata.formats.dataclass.parsers import XmlParser
    from xsdata.formats.dataclass.parsers.config import ParserConfig
    model = IP.Model(IP.full_source(ENC_SRC), "T")
    ctx, clazz = model.ctx, model.root
    r = random.Random(job["seed"])
    out = []
    tmpd = tempfile.mkdtemp(prefix="c08-pl-")

    def run(kind, doc, plain, cfg, with_trees):
        ref = XmlParser(context=ctx, handler=LxmlEventHandler).from_string(plain, clazz)
        data = doc.encode()
        path = os.path.join(tmpd, "d%d.xml" % len(out))
        with open(path, "wb") as f:
            f.write(data)
        for hname, h in (("native", XmlEventHandler), ("lxml", LxmlEventHandler)):
            def P():
                return XmlParser(context=ctx, handler=h, config=ParserConfig(**cfg))
            sources = [("bytes", lambda: P().from_bytes(data, clazz)), ("str", lambda: P().from_string(doc, clazz)),
                       ("fileobj", lambda: P().parse(io.BytesIO(data), clazz)), ("path", lambda: P().from_path(pathlib.Path(path), clazz))]
            if with_trees and hname == "lxml":
                sources += [("lxml_tree", lambda: P().parse(LET.parse(io.BytesIO(data)), clazz)), ("lxml_element", lambda: P().parse(LET.fromstring(data), clazz))]
            if with_trees and hname == "native":
                sources += [("et_element", lambda: P().parse(ET.fromstring(data), clazz))]
            for sname, fn in sources:
                try:
                    d = B.eq(ref, fn())
                    why = None if d is None else "differs at " + d
                except Exception as e:  # noqa
                    why = type(e).__name__ + ": " + str(e)[:120]
                out.append({"kind": kind, "handler": hname, "source": sname, "why": why, "doc": doc[:400], "expected": repr(ref)[:200]})
    try:
        for doc, plain in entity_docs(r, job.get("n", 12)):
            run("entities", doc, plain, {}, True)
        for doc, plain in XI_DOCS:
            run("xinclude-mode", doc, plain, {"process_xinclude": True}, False)
            run("comments", doc, plain, {}, True)
        # a real inclusion: the included file carries a comment inside character data
        inc = os.path.join(tmpd, "inc.xml")
        with open(inc, "w") as f:
            f.write("<t>in<!--c-->cluded</t>")
        doc = '<T xmlns:xi="http://www.w3.org/2001/XInclude"><t>a</t><xi:include href="inc.xml"/></T>'
        main = os.path.join(tmpd, "main.xml")
        with open(main, "w") as f:
            f.write(doc)
        ref = XmlParser(context=ctx, handler=LxmlEventHandler).from_string("<T><t>a</t><t>included</t></T>", clazz)
        for hname, h in (("native", XmlEventHandler), ("lxml", LxmlEventHandler)):
            for sname, fn in (("strpath", lambda: XmlParser(context=ctx, handler=h, config=ParserConfig(process_xinclude=True)).parse(main, clazz)),
                              ("bytes+base_url", lambda: XmlParser(context=ctx, handler=h, config=ParserConfig(process_xinclude=True, base_url=main)).from_bytes(doc.encode(), clazz))):
                try:
                    d = B.eq(ref, fn())
                    why = None if d is None else "differs at " + d
                except Exception as e:  # noqa
                    why = type(e).__name__ + ": " + str(e)[:120]
                out.append({"kind": "xinclude", "handler": hname, "source": sname, "why": why, "doc": doc, "expected": repr(ref)[:200]})
    finally:
        shutil.rmtree(tmpd, ignore_errors=True)
    model.close()
    return {"id": job["id"], "seed": job["seed"], "model": job["model"], "cases": [], "plumbing": out}


def run_job(job):
    if "chunk" in job["model"]:
        return chunk_job(job)
    if "plumbing" in job["model"]:
        return plumbing_job(job)
    if "enc" in job["model"]:
        return enc_job(job)
    r, model, info, docs = build(job)
    cases = []
    if docs is None:
        model.close()
        return dict(info, cases=cases)
    for src, fixed_cfg in docs:
        root0 = LET.fromstring(src.encode() if isinstance(src, str) else src)
        reps = 1 if fixed_cfg is not None else job.get("n_docs", 3)
        for k in range(reps):
            st = struct_of(root0, {})
            if fixed_cfg is not None:
                cfg, what = fixed_cfg, ["witness"]
                if k == 0 and "c08" in job["model"]:
                    pass
            else:
                lenient = r.random() < 0.5
                cfg = (not lenient, r.random() < 0.2, r.random() < 0.2)
                what = decorate(r, st, allow_unknown=lenient or r.random() < 0.15) if k > 0 else ["as-rendered"]
            cases.append(one_case(r, model, st, cfg, what, info))
        if fixed_cfg is not None:
            # the witness documents once more, decorated
            st = struct_of(root0, {})
            what = ["witness"] + decorate(r, st, allow_unknown=not fixed_cfg[0])
            cases.append(one_case(r, model, st, fixed_cfg, what, info))
    info["conv"] = model.ex.rec.table_term()
    model.close()
    return dict(info, cases=cases)


def main():
    req = json.load(sys.stdin)
    out = []
    for job in req["jobs"]:
        try:
            out.append(run_job(job))
        except Exception:  # noqa
            out.append({"id": job.get("id"), "seed": job.get("seed"), "model": job.get("model"),
                        "crashed": traceback.format_exc()[-3000:], "cases": []})
    json.dump({"dt_table": IP.dt_table_term(), "jobs": out}, sys.stdout)


if __name__ == "__main__":
    main()
