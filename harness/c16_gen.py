"""C16 generators: random external DTDs over the stated fragment and DTD-valid documents
drawn from their content models.  All randomness comes from the `rng` passed in.

DTD description (plain dicts/lists so it can go into replay files):
  {"root": name, "prefixes": {prefix: uri}, "default_ns": uri | None,
   "elements": [{"name": qname-as-written, "kind": "EMPTY"|"ANY"|"PCDATA"|"MIXED"|"CM",
                 "mixed": [names]            (MIXED)
                 "cm": tree                  (CM)
                 "attrs": [{"name", "type": "CDATA"|"ID"|"IDREF"|"IDREFS"|"NMTOKEN"|"NMTOKENS"|"ENUM",
                            "values": [tokens], "dflt": "REQUIRED"|"IMPLIED"|"FIXED"|"DEFAULT", "value": str|None}]}]}
  tree ::= ["el", name, occ] | ["seq", [tree...], occ] | ["or", [tree...], occ]      occ in "", "?", "*", "+"
"""
import io

from lxml import etree

ELEMENT_NAMES = ["a", "b", "c", "d", "e", "f", "g", "h", "item", "Title", "sub-item", "x.y", "n1", "Body", "para",
                 "entry", "class", "Tag", "post_id", "from", "Origin", "k2"]
ATTR_NAMES = ["id", "ref", "refs", "kind", "status", "created_at", "data-x", "x.y", "v1", "class", "name", "n",
              "author", "mode", "Level", "tok", "toks", "value"]
ENUM_TOKENS = ["draft", "published", "a-b", "c.d", "1", "x", "yes", "no", "UPPER", "v_1", "t2", "on", "off"]
ENUM_FAMILIES = [["on", "ON", "On", "oN"], ["kg", "Kg", "KG", "g"], ["a-b", "a_b", "a.b", "A-B"], ["-", ".", "--", "_", "-."],
                 ["1", "1a", "-3", "2", "_1"], ["value", "Value", "VALUE"], ["x.y", "x-y", "x_y", "xy"], ["None", "none", "NONE"]]
NMTOKENS = ["en", "x1", "a-b", "c.d", "1", "tok", "fr-CA", "_u", "v_2"]
TEXTS = ["t", "hello world", "x<y", "a&b", "é", " lead", "trail ", "two  spaces", "1", "0", "true", "中文", "q\"uote'",
         "]]>", "line\nbreak", "tab\there", "-1.50", "None"]
OCCS = ["", "", "", "?", "*", "+"]
URIS = ["urn:p", "http://www.example.com/ns", "urn:x:y"]


def needs_safe_prefix(tok):
    """xsdata prefixes a member name that does not start with a letter with `value` (1 -> VALUE_1, - -> VALUE_MINUS...)."""
    return not tok[:1].isalpha()


def enum_set_ok(vals):
    """Generator rule (C07's subject, its finding family F3 "safe prefix added after duplicate detection"):
    a token set never mixes a token that gets the safe prefix `value` with tokens whose own slug starts with
    `value` (1|value|VALUE, 2|Value-2, value_1|1 end in two members named VALUE_1 and the module does not import)."""
    return not (any(needs_safe_prefix(v) for v in vals) and any(_norm(v).startswith("value") for v in vals))


def _norm(n):
    return "".join(ch for ch in n.lower() if ch.isalnum())


# ------------------------------------------------------------------ content models
def gen_cm(rng, names, depth, top=True):
    """A random content-model tree over `names` (children may repeat across the tree)."""
    k = rng.random()
    if depth <= 0 or (not top and k < 0.45) or (top and k < 0.12):
        return ["el", rng.choice(names), rng.choice(OCCS)]
    kind = "seq" if rng.random() < 0.55 else "or"
    n = rng.choice([2, 2, 2, 3, 3, 4])
    kids = [gen_cm(rng, names, depth - 1, top=False) for _ in range(n)]
    return [kind, kids, rng.choice(OCCS)]


def cm_names(t):
    if t[0] == "el":
        return [t[1]]
    out = []
    for k in t[1]:
        out += cm_names(k)
    return out


def cm_text(t, top=True):
    if t[0] == "el":
        return ("(" + t[1] + ")" + t[2]) if top else (t[1] + t[2])
    sep = "," if t[0] == "seq" else "|"
    return "(" + sep.join(cm_text(k, False) for k in t[1]) + ")" + t[2]


def is_deterministic(t):
    """1-unambiguity (XML 1.0 appendix E) by the Glushkov construction: no two positions with the same
    name compete in first(E) or in follow(p)."""
    names, follow = [], {}

    def go(t):
        if t[0] == "el":
            p = len(names)
            names.append(t[1])
            follow[p] = set()
            nul, first, last = False, {p}, {p}
        elif t[0] == "seq":
            nul, first, last = True, set(), set()
            for k in t[1]:
                n2, f2, l2 = go(k)
                for p in last:
                    follow[p] |= f2
                if nul:
                    first = first | f2
                last = (last | l2) if n2 else set(l2)
                nul = nul and n2
        else:
            nul, first, last = False, set(), set()
            for k in t[1]:
                n2, f2, l2 = go(k)
                nul, first, last = nul or n2, first | f2, last | l2
        if t[2] in ("*", "+"):
            for p in last:
                follow[p] |= first
        if t[2] in ("?", "*"):
            nul = True
        return nul, first, last

    _, first, _ = go(t)

    def clash(ps):
        seen = set()
        for p in ps:
            if names[p] in seen:
                return True
            seen.add(names[p])
        return False

    return not clash(first) and not any(clash(f) for f in follow.values())


SHAPES = [  # frequent real-world shapes and the corner cases around the mapper's occurrence handling
    lambda n: ["seq", [["el", n[0], ""], ["el", n[1], ""]], "*"],
    lambda n: ["seq", [["el", n[0], ""], ["el", n[1], ""]], "+"],
    lambda n: ["seq", [["el", n[0], ""], ["el", n[1], ""]], "?"],
    lambda n: ["or", [["el", n[0], "*"], ["el", n[1], ""]], ""],
    lambda n: ["or", [["el", n[0], "+"], ["el", n[1], "?"]], ""],
    lambda n: ["or", [["el", n[0], ""], ["el", n[1], ""]], "*"],
    lambda n: ["or", [["el", n[0], ""], ["el", n[1], ""]], "+"],
    lambda n: ["or", [["el", n[0], ""], ["el", n[1], ""]], ""],
    lambda n: ["or", [["el", n[0], ""], ["el", n[1], ""]], "?"],
    lambda n: ["seq", [["el", n[0], ""], ["el", n[1], ""], ["el", n[0], ""]], ""],
    lambda n: ["seq", [["el", n[0], ""], ["or", [["el", n[1], ""], ["el", n[2 % len(n)], ""]], "+"], ["el", n[0], "?"]], ""],
    lambda n: ["seq", [["or", [["el", n[0], ""], ["el", n[1], ""]], "*"], ["el", n[2 % len(n)], ""]], ""],
    lambda n: ["seq", [["el", n[0], "?"], ["el", n[1], "*"], ["el", n[2 % len(n)], "+"]], ""],
    lambda n: ["seq", [["el", n[0], ""], ["seq", [["el", n[1], ""], ["el", n[2 % len(n)], "?"]], "*"]], ""],
    lambda n: ["or", [["seq", [["el", n[0], ""], ["el", n[1], "*"]], ""], ["el", n[2 % len(n)], ""]], ""],
    lambda n: ["or", [["el", n[0], ""], ["or", [["el", n[1], ""], ["el", n[2 % len(n)], ""]], "*"]], ""],
    lambda n: ["or", [["el", n[0], ""], ["el", n[1], ""], ["el", n[2 % len(n)], ""]], "*"] if len(n) > 2 else ["el", n[0], "*"],
    lambda n: ["or", [["el", n[0], ""], ["el", n[1], ""], ["el", n[2 % len(n)], ""]], "+"] if len(n) > 2 else ["el", n[0], "+"],
    lambda n: ["seq", [["el", n[0], ""], ["or", [["el", n[1], ""], ["el", n[2 % len(n)], ""], ["el", n[3 % len(n)], ""]], "*"]], ""]
    if len(n) > 3 else ["el", n[0], "+"],
    lambda n: ["or", [["el", n[0], ""], ["seq", [["el", n[1], ""], ["el", n[2 % len(n)], ""]], ""]], ""] if len(n) > 2 else ["el", n[0], ""],
    lambda n: ["seq", [["el", n[0], ""], ["el", n[1], ""], ["or", [["el", n[1], ""], ["el", n[2 % len(n)], ""]], "*"]], ""]
    if len(n) > 2 else ["el", n[0], ""],
    lambda n: ["seq", [["or", [["el", n[0], ""], ["el", n[1], ""]], ""], ["or", [["el", n[0], ""], ["el", n[2 % len(n)], ""]], ""]], ""]
    if len(n) > 2 else ["el", n[0], ""],
    lambda n: ["el", n[0], "+"],
    lambda n: ["el", n[0], "*"],
    lambda n: ["el", n[0], ""],
]


# ------------------------------------------------------------------ attributes
def gen_attr(rng, name, have_id):
    k = rng.random()
    if k < 0.3:
        ty = "CDATA"
    elif k < 0.5:
        ty = "ENUM"
    elif k < 0.6 and not have_id:
        ty = "ID"
    elif k < 0.68:
        ty = "IDREF"
    elif k < 0.75:
        ty = "IDREFS"
    elif k < 0.88:
        ty = "NMTOKEN"
    else:
        ty = "NMTOKENS"
    a = {"name": name, "type": ty, "values": [], "dflt": "IMPLIED", "value": None}
    if ty == "ENUM":
        if rng.random() < 0.45:
            # tokens that collide after xsdata's case / slug conversion (members get renamed: ON, ON_1 ...),
            # tokens made of punctuation only or starting with a digit; the default may be any of them
            fam = list(rng.choice(ENUM_FAMILIES))
            rng.shuffle(fam)
            vals = fam[:rng.choice([2, 3, 3, 4])]
            extra = [v for v in ENUM_TOKENS if v not in vals]
            if rng.random() < 0.5:
                vals.append(rng.choice(extra))
            if not enum_set_ok(vals):
                vals = [v for v in vals if not needs_safe_prefix(v)]
            rng.shuffle(vals)
        else:
            pool = list(ENUM_TOKENS)
            rng.shuffle(pool)
            vals, seen = [], set()
            for v in pool:
                if _norm(v) not in seen:
                    seen.add(_norm(v))
                    vals.append(v)
                if len(vals) >= rng.choice([1, 2, 3, 4]):
                    break
        a["values"] = vals
    if ty in ("ID",):
        a["dflt"] = rng.choice(["REQUIRED", "IMPLIED"])
        return a
    if ty in ("IDREF", "IDREFS"):
        a["dflt"] = "IMPLIED"
        return a
    a["dflt"] = rng.choice(["REQUIRED", "IMPLIED", "FIXED", "DEFAULT"])
    if a["dflt"] in ("FIXED", "DEFAULT"):
        a["value"] = attr_value(rng, a, ids=None)
    return a


def attr_value(rng, a, ids):
    ty = a["type"]
    if ty == "CDATA":
        return rng.choice(["", "v", "some text", "x<y&z", "é", " pad ", "1", "q\"q", "true"])
    if ty == "ENUM":
        return rng.choice(a["values"])
    if ty == "NMTOKEN":
        return rng.choice(NMTOKENS)
    if ty == "NMTOKENS":
        return " ".join(rng.choice(NMTOKENS) for _ in range(rng.choice([1, 1, 2, 3])))
    raise AssertionError(ty)


def attr_decl_text(a):
    ty = "(" + "|".join(a["values"]) + ")" if a["type"] == "ENUM" else a["type"]
    if a["dflt"] in ("REQUIRED", "IMPLIED"):
        d = "#" + a["dflt"]
    else:
        d = ("#FIXED " if a["dflt"] == "FIXED" else "") + quote(a["value"])
    return f"{a['name']} {ty} {d}"


def quote(v):
    v = v.replace("&", "&amp;").replace("<", "&lt;")
    return "'" + v + "'" if '"' in v and "'" not in v else '"' + v.replace('"', "&quot;") + '"'


# ------------------------------------------------------------------ DTDs
def gen_dtd(rng, flavour=None):
    """flavour: None (plain), "prefix-attrs" (xmlns:p + p:attributes), "default-ns" (xmlns on the root),
    "prefix-elements" (p:root with p:children)."""
    n = rng.choice([2, 3, 3, 4, 4, 5, 6, 7])
    pool = list(ELEMENT_NAMES)
    rng.shuffle(pool)
    names, seen = [], set()
    for x in pool:
        if _norm(x) not in seen:
            seen.add(_norm(x))
            names.append(x)
        if len(names) == n:
            break
    prefixes = {}
    default_ns = None
    if flavour == "prefix-elements":
        prefixes["p"] = rng.choice(URIS)
        names = ["p:" + x for x in names]
    elif flavour == "prefix-attrs":
        uris = list(URIS)
        rng.shuffle(uris)
        for pfx in ["p", "ex", "q"][:rng.choice([1, 2, 2, 3, 3])]:
            prefixes[pfx] = uris.pop()
    elif flavour == "default-ns":
        default_ns = rng.choice(URIS)
    elements = []
    for i, name in enumerate(names):
        later = names[i + 1:]
        k = rng.random()
        el = {"name": name, "attrs": []}
        if not later or (i > 0 and k < 0.25):
            el["kind"] = rng.choice(["EMPTY", "PCDATA", "PCDATA", "PCDATA", "ANY"] if i > 0 else ["PCDATA", "EMPTY"])
        elif k < 0.37 and i > 0:
            el["kind"] = "MIXED"
            m = list(later if rng.random() < 0.8 else names)
            rng.shuffle(m)
            el["mixed"] = m[:rng.choice([1, 2, 3])]
        else:
            el["kind"] = "CM"
            cand = list(later)
            if i > 0 and rng.random() < 0.15:
                cand.append(rng.choice(names[:i + 1]))     # recursion; made optional below
            for _try in range(200):
                if rng.random() < 0.45 and len(cand) >= 2:
                    sh = list(cand)
                    rng.shuffle(sh)
                    cm = rng.choice(SHAPES)(sh)
                else:
                    cm = gen_cm(rng, cand, rng.choice([1, 2, 2, 3]))
                cm = libxml2_normalise(guard_recursion(cm, set(names[:i + 1])))
                if is_deterministic(cm):
                    break
            else:
                cm = ["el", cand[0], "*"]
            el["cm"] = cm
        elements.append(el)
    # attributes
    for i, el in enumerate(elements):
        if rng.random() < 0.6:
            pool = list(ATTR_NAMES)
            rng.shuffle(pool)
            have_id = False
            seen = set()
            for an in pool[:rng.choice([1, 1, 2, 3, 4])]:
                if _norm(an) in seen:
                    continue
                seen.add(_norm(an))
                a = gen_attr(rng, an, have_id)
                have_id = have_id or a["type"] == "ID"
                el["attrs"].append(a)
        if rng.random() < 0.12:
            a = {"name": "xml:lang", "type": rng.choice(["NMTOKEN", "CDATA"]), "values": [], "dflt": "IMPLIED", "value": None}
            if rng.random() < 0.5:
                a["dflt"], a["value"] = "DEFAULT", "en"
            el["attrs"].append(a)
        if flavour == "prefix-attrs" and (i == 0 or rng.random() < 0.5):
            taken = {_norm(a["name"].split(":")[-1]) for a in el["attrs"]}
            pool = [x for x in ["k", "kind", "id2", "n", "q1", "rel", "href", "w"] if _norm(x) not in taken]
            rng.shuffle(pool)
            used = [p for p in prefixes if i == 0 or rng.random() < 0.7] or [next(iter(prefixes))]
            for pfx in used:
                for _k in range(rng.choice([1, 1, 2])):
                    if not pool:
                        break
                    a = gen_attr(rng, pfx + ":" + pool.pop(), True)
                    if a["type"] in ("IDREF", "IDREFS"):
                        a["type"] = "CDATA"
                    el["attrs"].append(a)
            # the namespace declarations, anywhere in the ATTLIST: in front, at the end, next to each other, scattered
            decls = [{"name": "xmlns:" + pfx, "type": "CDATA", "values": [], "dflt": "FIXED", "value": prefixes[pfx]}
                     for pfx in (prefixes if i == 0 else used)]
            rng.shuffle(decls)
            where = rng.choice(["front", "last", "last", "scattered", "middle"])
            if where == "front":
                el["attrs"] = decls + el["attrs"]
            elif where == "last":
                el["attrs"] = el["attrs"] + decls
            elif where == "middle":
                k = rng.randint(0, len(el["attrs"]))
                el["attrs"] = el["attrs"][:k] + decls + el["attrs"][k:]
            else:
                for dcl in decls:
                    el["attrs"].insert(rng.randint(0, len(el["attrs"])), dcl)
    root = elements[0]
    if flavour != "prefix-attrs":
        for p, u in prefixes.items():
            root["attrs"].insert(0, {"name": "xmlns:" + p, "type": "CDATA", "values": [], "dflt": "FIXED", "value": u})
    if default_ns:
        root["attrs"].insert(0, {"name": "xmlns", "type": "CDATA", "values": [], "dflt": "FIXED", "value": default_ns})
    return {"root": names[0], "prefixes": prefixes, "default_ns": default_ns, "elements": elements, "flavour": flavour or "plain"}


def guard_recursion(t, back):
    """References to the element itself / earlier elements must be skippable so that finite documents exist."""
    if t[0] == "el":
        if t[1] in back and t[2] in ("", "+"):
            return ["el", t[1], "*" if t[2] == "+" else "?"]
        return t
    return [t[0], [guard_recursion(k, back) for k in t[1]], t[2]]


def libxml2_normalise(t):
    """libxml2 rewrites (a | b* | c?)* to (a | b | c)* and (a | b?)+ to (a | b)* while parsing a group's
    occurrence suffix (same language).  Mirror it so that the description equals what lxml holds."""
    if t[0] == "el":
        return t
    kids = [libxml2_normalise(k) for k in t[1]]
    t = [t[0], kids, t[2]]
    if t[0] == "or" and t[2] in ("*", "+"):
        found = False
        cur = t
        while cur is not None and cur[0] == "or":
            for k in cur[1]:
                if k[2] in ("?", "*"):
                    k[2] = ""
                    found = True
            cur = cur[1][-1]
        if t[2] == "+" and found:
            t[2] = "*"
    return t


def dtd_text(d):
    lines = []
    for el in d["elements"]:
        k = el["kind"]
        if k in ("EMPTY", "ANY"):
            spec = k
        elif k == "PCDATA":
            spec = "(#PCDATA)"
        elif k == "MIXED":
            spec = "(#PCDATA|" + "|".join(el["mixed"]) + ")*"
        else:
            spec = cm_text(el["cm"])
        lines.append(f"<!ELEMENT {el['name']} {spec}>")
        if el["attrs"]:
            lines.append(f"<!ATTLIST {el['name']}\n  " + "\n  ".join(attr_decl_text(a) for a in el["attrs"]) + ">")
    return "\n".join(lines) + "\n"


def to_binary(t):
    """The shape libxml2 gives a content model: right-nested binary seq/or nodes."""
    occ = {"": "once", "?": "opt", "*": "mult", "+": "plus"}
    if t[0] == "el":
        return {"type": "element", "name": t[1], "occur": occ[t[2]], "left": None, "right": None}
    kids = t[1]
    node = to_binary(kids[-1])
    for k in reversed(kids[1:-1]):
        node = {"type": t[0], "name": None, "occur": "once", "left": to_binary(k), "right": node}
    return {"type": t[0], "name": None, "occur": occ[t[2]], "left": to_binary(kids[0]), "right": node}


# ------------------------------------------------------------------ documents
class DocGen:
    def __init__(self, d, rng):
        self.d = d
        self.rng = rng
        self.decl = {e["name"]: e for e in d["elements"]}
        self.mind = {}
        self._mindepth()

    def _mindepth(self):
        INF = 10 ** 6
        md = {n: INF for n in self.decl}
        for _ in range(len(md) + 2):
            for n, e in self.decl.items():
                if e["kind"] != "CM":
                    md[n] = 1
                else:
                    md[n] = min(md[n], 1 + self._tree_min(e["cm"], md))
        self.mind = md

    def _tree_min(self, t, md):
        if t[2] in ("?", "*"):
            return 0
        if t[0] == "el":
            return md[t[1]]
        vals = [self._tree_min(k, md) for k in t[1]]
        return max(vals) if t[0] == "seq" else min(vals)

    def reps(self, occ, small, style):
        r = self.rng
        if style == "min" or small:
            return 0 if occ in ("?", "*") else 1
        if style == "max":
            return {"": 1, "?": 1, "*": 3, "+": 3}[occ]
        if occ == "":
            return 1
        if occ == "?":
            return r.choice([0, 1])
        if occ == "*":
            return r.choice([0, 0, 1, 2, 3])
        return r.choice([1, 1, 2, 3])

    def word(self, t, small, style):
        """A word of the content model; `small` = minimal expansion (used deep in the tree)."""
        out = []
        for _ in range(self.reps(t[2], small, style)):
            if t[0] == "el":
                out.append(t[1])
            elif t[0] == "seq":
                for k in t[1]:
                    out += self.word(k, small, style)
            else:
                ks = t[1]
                if small or style == "min":
                    ks = sorted(ks, key=lambda k: self._tree_min(k, self.mind))[:1]
                out += self.word(self.rng.choice(ks), small, style)
        return out

    def element(self, name, depth, style, ids, idrefs, ws, force=None):
        r = self.rng
        e = self.decl[name]
        node = etree.Element(self.clark(name), nsmap=self.nsmap() if depth == 0 else None)
        for a in e["attrs"]:
            self.put_attr(node, a, ids, idrefs, style)
        k = e["kind"]
        budget = 4 - depth
        if force is not None:
            word, text = force
            if text:
                node.text = "t"
            for n in word:
                c = self.element(n, 3, "min", ids, idrefs, False)
                node.append(c)
                if text:
                    c.tail = "t"
        elif k == "PCDATA":
            if r.random() < 0.85:
                node.text = r.choice(TEXTS)
        elif k == "CM":
            st = style if depth == 0 else ("rand" if style != "min" else "min")
            w = self.word(e["cm"], depth >= 3, st)
            kids = [self.element(n, depth + 1, style, ids, idrefs, ws) for n in w]
            for c in kids:
                node.append(c)
            if ws and kids:
                node.text = "\n" + "  " * (depth + 1)
                for c in kids[:-1]:
                    c.tail = "\n" + "  " * (depth + 1)
                kids[-1].tail = "\n" + "  " * depth
        elif k in ("MIXED", "ANY"):
            names = e["mixed"] if k == "MIXED" else [n for n in self.decl]
            n = 0 if budget <= 1 else r.choice([0, 1, 2, 3])
            if style == "min":
                n = 0
            names = [x for x in names if self.mind[x] <= max(budget - 1, 1)]
            kids = [self.element(r.choice(names), depth + 1, "rand", ids, idrefs, False) for _ in range(n if names else 0)]
            text_ok = not (k == "ANY" and kids and self.any_text_off)
            if text_ok and r.random() < 0.7:
                node.text = self.chunk()
            for c in kids:
                node.append(c)
                if text_ok and r.random() < 0.6:
                    c.tail = self.chunk()
        return node

    any_text_off = False
    ws_chunks = False

    def chunk(self):
        if self.ws_chunks and self.rng.random() < 0.3:
            return self.rng.choice([" ", "\n  ", "\t"])
        return self.rng.choice(TEXTS)

    def clark(self, name):
        if ":" in name:
            p, l = name.split(":")
            if p == "xml":
                return "{http://www.w3.org/XML/1998/namespace}" + l
            return "{" + self.d["prefixes"][p] + "}" + l
        return name

    def elem_clark(self, name):
        if ":" in name:
            return self.clark(name)
        if self.d["default_ns"]:
            return "{" + self.d["default_ns"] + "}" + name
        return name

    def nsmap(self):
        m = dict(self.d["prefixes"])
        return m or None

    def put_attr(self, node, a, ids, idrefs, style):
        r = self.rng
        name = a["name"]
        if name.startswith("xmlns"):
            return
        d = a["dflt"]
        if d == "REQUIRED":
            present = True
        elif style == "min":
            present = False
        else:
            present = r.random() < 0.55
        if not present:
            return
        if a["type"] == "ID":
            v = "id%d" % (len(ids) + 1)
            ids.append(v)
        elif a["type"] in ("IDREF", "IDREFS"):
            idrefs.append((node, self.clark(name), a["type"]))
            return
        elif d == "FIXED":
            v = a["value"]
        else:
            v = attr_value(r, a, None)
        node.set(self.clark(name), v)

    def document(self, style="rand", ws=False, root_name=None, force=None):
        ids, idrefs = [], []
        root = self.element(root_name or self.d["root"], 0, style, ids, idrefs, ws, force)
        for node, cname, ty in idrefs:
            if ids:
                n = 1 if ty == "IDREF" else self.rng.choice([1, 2, 3])
                node.set(cname, " ".join(self.rng.choice(ids) for _ in range(n)))
        if self.d["default_ns"]:
            # lxml cannot re-namespace in place: rebuild the text with a default namespace declaration
            txt = etree.tostring(root, encoding="unicode")
            i = txt.index(">")
            if txt[i - 1] == "/":
                i -= 1
            return txt[:i] + f' xmlns="{self.d["default_ns"]}"' + txt[i:]
        return etree.tostring(root, encoding="unicode")


def validate(dtd_txt, doc_txt):
    """lxml/libxml2's DTD validator: (valid?, error text).  Independent of xsdata.
    The DTD is given as the internal subset of the document: libxml2's validation against an externally
    loaded DTD object compares #FIXED values with the unexpanded declaration text ("x&#38;y" for "x&amp;y")
    and so rejects valid documents; through the parser the comparison is done on the expanded value."""
    import re
    m = re.match(r"\s*(?:<\?xml[^>]*\?>\s*)?<([^\s/>]+)", doc_txt)
    if not m:
        return False, "ill-formed: no root element"
    body = doc_txt[m.start(1) - 1:]
    full = f"<!DOCTYPE {m.group(1)} [\n{dtd_txt}]>\n{body}"
    parser = etree.XMLParser(dtd_validation=True, attribute_defaults=False, resolve_entities=True)
    try:
        etree.fromstring(full.encode(), parser)
        return True, ""
    except etree.XMLSyntaxError as e:
        return False, "; ".join(str(x.message) for x in parser.error_log)[:400] or str(e)
