"""Shared machinery of the checks: build, Coq evaluation of case files, running the
implementation in a subprocess, known findings, replays, evidence.

One check = harness/cXX.py exposing `run(ck: Check)`; the driver is /verif/check.
"""
from __future__ import annotations

import concurrent.futures as cf
import fcntl
import hashlib
import json
import os
import random
import re
import shutil
import subprocess
import sys
import time

ROOT = os.path.dirname(os.path.dirname(os.path.abspath(__file__)))
COQ = os.path.join(ROOT, "coq")
CORR = os.path.join(COQ, "Corr")
REPO = os.environ.get("XSDATA_REPO", "/repo")
PY = "/venv/bin/python"
SHIMS = os.path.join(ROOT, "shims")
GUARD = "XSDATA_VERIF"

sys.path.insert(0, os.path.join(ROOT, "harness"))
from coqterm import *  # noqa: F401,F403,E402


def impl_env(with_shims=False, hashseed="0"):
    env = dict(os.environ)
    env["PYTHONPATH"] = REPO + ((":" + SHIMS) if with_shims else "")
    env["PYTHONHASHSEED"] = str(hashseed)
    env[GUARD] = "1"
    env["PYTHONDONTWRITEBYTECODE"] = "1"
    return env


class BuildError(Exception):
    def __init__(self, target, log):
        super().__init__(target)
        self.target = target
        self.log = log


class _Lock:
    def __enter__(self):
        self.f = open(os.path.join(ROOT, ".build.lock"), "w")
        fcntl.flock(self.f, fcntl.LOCK_EX)

    def __exit__(self, *a):
        fcntl.flock(self.f, fcntl.LOCK_UN)
        self.f.close()


def regen_tables():
    r = subprocess.run([PY, os.path.join(ROOT, "tools", "gen_tables.py")], capture_output=True, text=True,
                       env=impl_env(), timeout=600)
    if r.returncode != 0:
        raise BuildError("tools/gen_tables.py", r.stdout + r.stderr)
    return r.stdout.strip()


def refresh_makefile():
    head = open(os.path.join(COQ, "_CoqProject.head")).read()
    files = []
    for d in ("Base", "Gen", "Spec", "Model", "Proofs", "Properties"):
        for dp, _, fns in os.walk(os.path.join(COQ, d)):
            for fn in fns:
                if fn.endswith(".v"):
                    files.append(os.path.relpath(os.path.join(dp, fn), COQ))
    text = head + "\n".join(sorted(files)) + "\n"
    changed = write_if_changed(os.path.join(COQ, "_CoqProject"), text)  # noqa: F405
    if changed or not os.path.exists(os.path.join(COQ, "Makefile")):
        subprocess.run(["coq_makefile", "-f", "_CoqProject", "-o", "Makefile"], cwd=COQ, check=True,
                       capture_output=True)


def make(targets, timeout=1500, keep_going=False):
    """Build .vo targets (paths relative to coq/).  Returns (ok, log)."""
    with _Lock():
        refresh_makefile()
        cmd = ["timeout", str(timeout), "make", "-j16"] + (["-k"] if keep_going else []) + list(targets)
        r = subprocess.run(cmd, cwd=COQ, capture_output=True, text=True)
    return r.returncode == 0, r.stdout + r.stderr


def first_error(log):
    m = re.search(r'File "\./([^"]+)", line (\d+)[^\n]*\n((?:.*\n){0,12})', log)
    if m:
        return m.group(1), int(m.group(2)), m.group(3)
    return None, None, log[-2000:]


# ---------------------------------------------------------------- Coq evaluation
_COQC_RETRY_LOCK = __import__("threading").Lock()


def _coqc(path, timeout=600):
    cmd = ["coqc", "-Q", COQ, "XV", "-w", "-all", path]
    r = subprocess.run(["timeout", str(timeout)] + cmd, capture_output=True, text=True, cwd=os.path.dirname(path))
    if r.returncode in (124, 137, -9, -15) or (r.returncode != 0 and not r.stdout.strip() and not r.stderr.strip()):
        # killed by the time limit or by memory pressure (a loaded machine), not rejected by Coq: once more,
        # one at a time, with a longer limit.  A case file that Coq REJECTS has an error text and is not retried.
        with _COQC_RETRY_LOCK:
            r = subprocess.run(["timeout", str(timeout * 3)] + cmd, capture_output=True, text=True,
                               cwd=os.path.dirname(path))
    return r.returncode, r.stdout, r.stderr


_NUMLIST = re.compile(r"=\s*(\[[^\]]*\])\s*:\s*list nat", re.S)


def coq_bad_indices(tag, imports, defs, ctype, check, cases, shard=400, timeout=900):
    """Evaluate `check : ctype -> bool` on every case (Gallina terms, strings) inside
    Coq and return the indices on which it is false.  `defs` is extra vernacular."""
    os.makedirs(CORR, exist_ok=True)
    shards = [cases[i:i + shard] for i in range(0, len(cases), shard)] or [[]]
    paths = []
    for k, sh in enumerate(shards):
        name = f"cases_{tag}_{os.getpid()}_{k}"
        path = os.path.join(CORR, name + ".v")
        body = [imports, "From Coq Require Import NArith ZArith List Bool.", "Import ListNotations.",
                defs, f"Definition the_cases : list ({ctype}) := ["]
        body.append(";\n".join(sh))
        body.append("].")
        body.append("""Fixpoint bad_idx {A} (f : A -> bool) (i : nat) (l : list A) : list nat :=
  match l with [] => [] | x :: r => if f x then bad_idx f (S i) r else i :: bad_idx f (S i) r end.""")
        body.append(f"Definition the_check : ({ctype}) -> bool := {check}.")
        body.append("Eval vm_compute in (bad_idx the_check 0 the_cases).")
        with open(path, "w") as f:
            f.write("\n".join(body) + "\n")
        paths.append(path)
    bad = []
    with cf.ThreadPoolExecutor(max_workers=16) as ex:
        results = list(ex.map(lambda p: _coqc(p, timeout), paths))
    for k, (rc, out, err) in enumerate(results):
        if rc != 0:
            raise BuildError(os.path.relpath(paths[k], COQ), out + err)
        m = _NUMLIST.search(out)
        if not m:
            raise BuildError(os.path.relpath(paths[k], COQ), "unparsable output: " + out[-500:])
        idx = [int(x) for x in re.findall(r"\d+", m.group(1))]
        bad += [k * shard + i for i in idx]
    for p in paths:
        base = p[:-2]
        for ext in (".v", ".vo", ".vok", ".vos", ".glob"):
            try:
                os.remove(base + ext)
            except FileNotFoundError:
                pass
        try:
            os.remove(os.path.join(os.path.dirname(p), "." + os.path.basename(base) + ".aux"))
        except FileNotFoundError:
            pass
    return bad


def coq_bad_matrix(tag, imports, defs, ctype, checks, cases, shard_chars=400000, timeout=900):
    """Like coq_bad_indices for several predicates at once: `checks` maps a name to a Gallina
    predicate of type ctype -> bool; every case is parsed once per shard and all predicates are
    evaluated in one coqc run.  Shards are balanced by term size.  Returns {name: [bad indices]}."""
    os.makedirs(CORR, exist_ok=True)
    names = list(checks)
    shards, cur, size = [], [], 0
    for i, c in enumerate(cases):
        if cur and size + len(c) > shard_chars:
            shards.append(cur)
            cur, size = [], 0
        cur.append(i)
        size += len(c)
    if cur or not shards:
        shards.append(cur)
    paths = []
    for k, idxs in enumerate(shards):
        path = os.path.join(CORR, f"cases_{tag}_{os.getpid()}_m{k}.v")
        body = [imports, "From Coq Require Import NArith ZArith List Bool.", "Import ListNotations.", defs,
                f"Definition the_cases : list ({ctype}) := [", ";\n".join(cases[i] for i in idxs), "].",
                """Fixpoint bad_idx {A} (f : A -> bool) (i : nat) (l : list A) : list nat :=
  match l with [] => [] | x :: r => if f x then bad_idx f (S i) r else i :: bad_idx f (S i) r end."""]
        for j, nm in enumerate(names):
            body.append(f"Definition the_check_{j} : ({ctype}) -> bool := {checks[nm]}.")
        body.append("Eval vm_compute in (" + ", ".join(f"bad_idx the_check_{j} 0 the_cases" for j in range(len(names))) + ", tt).")
        with open(path, "w") as f:
            f.write("\n".join(body) + "\n")
        paths.append(path)
    with cf.ThreadPoolExecutor(max_workers=16) as ex:
        results = list(ex.map(lambda p: _coqc(p, timeout), paths))
    out = {nm: [] for nm in names}
    for k, (rc, o, err) in enumerate(results):
        if rc != 0:
            raise BuildError(os.path.relpath(paths[k], COQ), o + err)
        lists = re.findall(r"\[([^\]]*)\]", o[o.index("="):] if "=" in o else o)
        if len(lists) < len(names):
            raise BuildError(os.path.relpath(paths[k], COQ), "unparsable output: " + o[-500:])
        for nm, l in zip(names, lists):
            out[nm] += [shards[k][int(x)] for x in re.findall(r"\d+", l)]
    for p in paths:
        base = p[:-2]
        for ext in (".v", ".vo", ".vok", ".vos", ".glob"):
            try:
                os.remove(base + ext)
            except FileNotFoundError:
                pass
        try:
            os.remove(os.path.join(os.path.dirname(p), "." + os.path.basename(base) + ".aux"))
        except FileNotFoundError:
            pass
    return out


def coq_eval(tag, imports, defs, term, timeout=600):
    """Evaluate one closed term and return Coq's printed result (text after '=')."""
    os.makedirs(CORR, exist_ok=True)
    path = os.path.join(CORR, f"eval_{tag}_{os.getpid()}.v")
    with open(path, "w") as f:
        f.write("\n".join([imports, "From Coq Require Import NArith ZArith List Bool.", "Import ListNotations.", defs,
                           f"Eval vm_compute in ({term})."]) + "\n")
    rc, out, err = _coqc(path, timeout)
    for ext in (".v", ".vo", ".vok", ".vos", ".glob"):
        try:
            os.remove(path[:-2] + ext)
        except FileNotFoundError:
            pass
    if rc != 0:
        raise BuildError(os.path.relpath(path, COQ), out + err)
    m = re.search(r"=\s*(.*)\n\s*:\s", out, re.S)
    return re.sub(r"\s+", " ", m.group(1)).strip() if m else out


# ---------------------------------------------------------------- implementation runner
def run_impl(script, payload, timeout=600, with_shims=False, hashseed="0", args=()):
    """Run harness/<script> under the implementation interpreter; JSON in, JSON out."""
    r = subprocess.run([PY, os.path.join(ROOT, "harness", script), *args], input=json.dumps(payload),
                       capture_output=True, text=True, env=impl_env(with_shims, hashseed), timeout=timeout)
    if r.returncode != 0:
        raise RuntimeError(f"{script} failed ({r.returncode}):\n{r.stderr[-3000:]}")
    return json.loads(r.stdout)


# ---------------------------------------------------------------- theorems / assumptions
def check_properties_file(pid):
    """Compile Properties/<pid>.v alone (its dependencies must be built) and read the
    theorem names and their Print Assumptions blocks.  Returns dict."""
    path = os.path.join(COQ, "Properties", pid + ".v")
    src = open(path).read()
    theorems = re.findall(r"^\s*(?:Theorem|Example)\s+([A-Za-z0-9_']+)", src, re.M)
    with _Lock():
        r = subprocess.run(["timeout", "900", "coqc", "-Q", COQ, "XV", "-w", "-all", path], capture_output=True, text=True,
                           cwd=COQ)
    out = r.stdout
    blocks = re.split(r"\n(?=Closed under the global context|Axioms:)", "\n" + out)
    assumptions = []
    for b in blocks:
        b = b.strip()
        if b.startswith("Closed under"):
            assumptions.append("closed")
        elif b.startswith("Axioms:"):
            names = re.findall(r"^([A-Za-z0-9_.']+)\s*:", b[len("Axioms:"):], re.M)
            assumptions.append(sorted(set(names)))
    return {"ok": r.returncode == 0, "theorems": theorems, "assumptions": assumptions, "log": out + r.stderr}


# ---------------------------------------------------------------- the check object
class Check:
    def __init__(self, pid, tier, seed):
        self.pid = pid
        self.report_pid = pid      # property id printed in VIOLATION / KNOWN-FINDING lines (composite checks)
        self.tier = tier
        self.seed = seed
        self.rng = random.Random(seed)
        self.t0 = time.time()
        self.violations = []   # (cls, what, replay_path)
        self.known_hits = {}   # finding id -> what
        self.cov = {"evaluations": 0, "distinct_nontrivial": 0, "rule": "", "samples": []}
        self.assumptions = []
        self.notes = []
        self.broken = []       # theorem / correspondence names that no longer check
        kf = os.path.join(ROOT, "known_findings", pid + ".json")
        self.known = json.load(open(kf)) if os.path.exists(kf) else []
        self.level = "proof"
        os.makedirs(os.path.join(ROOT, "replays", pid), exist_ok=True)

    @property
    def quick(self):
        return self.tier == "quick"

    def n(self, quick, thorough):
        return quick if self.quick else thorough

    # -- findings ----------------------------------------------------------
    def open_classes(self):
        return {k["class"]: k for k in self.known if k.get("status", "open") == "open"}

    def failure(self, cls, what, replay):
        """Record an oracle/correspondence failure.  `cls` names the narrow class of
        inputs; if an *open* known finding lists that class it is a KNOWN-FINDING."""
        oc = self.open_classes()
        if cls in oc:
            if oc[cls]["id"] not in self.known_hits:
                with open(os.path.join(ROOT, "replays", self.pid, f"known-{cls}.json"), "w") as f:
                    json.dump({"property": self.pid, "class": cls, "what": what, "replay": replay, "seed": self.seed}, f,
                              indent=1, default=str)
            self.known_hits.setdefault(oc[cls]["id"], (oc[cls], what))
            return False
        # keep the first (smallest) replay per class
        for v in self.violations:
            if v[0] == cls:
                return True
        h = hashlib.sha1(json.dumps(replay, sort_keys=True, default=str).encode()).hexdigest()[:10]
        path = os.path.join(ROOT, "replays", self.pid, f"{cls}-{h}.json")
        with open(path, "w") as f:
            json.dump({"property": self.pid, "class": cls, "what": what, "replay": replay, "seed": self.seed}, f,
                      indent=1, default=str)
        self.violations.append((cls, what, path))
        return True

    def broken_obligation(self, name, log):
        self.broken.append((name, log))

    # -- finish --------------------------------------------------------------
    def finish(self, obligations=0, discharged=0, checker_cmd="", trusted_base=(), assumptions=(), extra=None):
        # broken proof obligations / correspondences with no concrete failing input
        if self.broken and not self.violations:
            for name, log in self.broken:
                path = os.path.join(ROOT, "replays", self.pid, "broken-" + re.sub(r"\W+", "_", name) + ".json")
                with open(path, "w") as f:
                    json.dump({"property": self.pid, "broken": name, "log": log[-4000:],
                               "note": "proof obligation or correspondence no longer checks; no failing input found"},
                              f, indent=1)
                self.violations.append(("broken:" + name, name, path + " no-failing-input-found"))
        for fid, (k, what) in sorted(self.known_hits.items()):
            print(f"KNOWN-FINDING: property={self.report_pid} {fid}: {k['what']} [now: {what}]")
        for k in self.known:
            if k.get("status", "open") == "open" and k["id"] not in self.known_hits:
                self.notes.append(f"known finding {k['id']} not reproduced by this run")
        for cls, what, path in self.violations:
            print(f"note: {what}"[:600])
            print(f"VIOLATION property={self.report_pid} replay={path}")
        cov = dict(self.cov)
        cov["samples"] = cov["samples"][:12] or ["(none)"]
        cov.update({"obligations": obligations, "discharged": discharged, "checker_cmd": checker_cmd,
                    "trusted_base": list(trusted_base)})
        if extra:
            cov.update(extra)
        cov["known_findings_reproduced"] = sorted(self.known_hits)
        cov["notes"] = self.notes
        ev = {"property_id": self.pid, "tier": self.tier, "seed": self.seed, "level": self.level, "coverage": cov,
              "assumptions": list(assumptions), "wall_s": round(time.time() - self.t0, 1),
              "violations": len(self.violations)}
        os.makedirs(os.path.join(ROOT, "evidence"), exist_ok=True)
        with open(os.path.join(ROOT, "evidence", self.pid + ".json"), "w") as f:
            json.dump(ev, f, indent=1, default=str)
        print(f"{self.pid}: tier={self.tier} seed={self.seed} evaluations={cov['evaluations']} "
              f"obligations={obligations}/{discharged} violations={len(self.violations)} "
              f"known={len(self.known_hits)} wall={ev['wall_s']}s")
        return 1 if self.violations else 0


def standard_proof_step(ck: Check, extra_targets=()):
    """tables -> make the property's closure -> compile Properties/<pid>.v and read
    Print Assumptions.  Returns (obligations, discharged, assumptions_text)."""
    try:
        msg = regen_tables()
        ck.notes.append(msg)
    except BuildError as e:
        ck.broken_obligation("gen_tables", e.log)
        return 1, 0, []
    # audit of the sources (no Admitted/Axiom/Parameter..., no Variable outside a Section, no unsafe flags)
    try:
        sys.path.insert(0, os.path.join(ROOT, "tools"))
        import audit_coq
        hits = audit_coq.audit(COQ)
        if hits:
            ck.broken_obligation("audit_coq", "\n".join(hits[:40]))
        ck.notes.append(f"audit_coq: {len(hits)} hit(s)")
    except Exception as e:  # the audit must never hide a result
        ck.notes.append(f"audit_coq could not run: {e}")
    targets = [f"Properties/{ck.pid}.vo", *extra_targets]
    ok, log = make(targets)
    if not ok:
        # build the models anyway so that correspondence and search can run
        f, line, msg = first_error(log)
        ck.broken_obligation(f"{f}:{line}" if f else "make", (msg or "") + "\n" + log[-1500:])
        make([t for t in extra_targets], keep_going=True)
        info = {"theorems": re.findall(r"^\s*Theorem\s+([A-Za-z0-9_']+)",
                                       open(os.path.join(COQ, "Properties", ck.pid + ".v")).read(), re.M)}
        return len(info["theorems"]), 0, []
    info = check_properties_file(ck.pid)
    nthm = len([t for t in info["theorems"]])
    if not info["ok"]:
        ck.broken_obligation(f"Properties/{ck.pid}.v", info["log"])
        return nthm, 0, []
    axioms = sorted({a for blk in info["assumptions"] if blk != "closed" for a in blk})
    ck.theorems = info["theorems"]
    return nthm, nthm, axioms


TRUSTED_COMMON = [
    "Coq 8.16.1 kernel and vm_compute (no native_compute)",
    "tools/gen_tables.py (ast extraction of constants into coq/Gen)",
    "harness value->Gallina printers and the correspondence harness",
    "hand-written Gallina models validated against, not derived from, the Python code",
]
