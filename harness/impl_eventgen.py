"""Runs the REAL EventGenerator (and XmlContext / XmlMetaBuilder) on generated binding
models and instances.  JSON stdin -> JSON stdout, under /venv/bin/python PYTHONPATH=/repo.

in : {"models": [{"src": module text, "classes": [names], "enums": [names],
                  "cases": [{"recipe": ..., "ignore": bool, "derived": null | qname}]}]}
out: {"models": [{"universe": term | null, "unsupported": msg | null,
                  "cases": [{"value": term, "table": term, "outcome": term, "skip": msg | null}],
                  "metas": ...}]}

The converter calls made while the generator runs are recorded (ConverterFactory.serialize /
ConverterFactory.test / DataType.from_value are wrapped in THIS process; /repo is untouched)
and exported as a Bind.conv_table.
"""
import json
import os
import sys
import traceback

sys.path.insert(0, os.path.dirname(os.path.abspath(__file__)))

import bind_export as bx  # noqa: E402
import genmodels  # noqa: E402
from xsdata.exceptions import SerializerError, XmlContextError  # noqa: E402
from xsdata.formats.converter import ConverterFactory  # noqa: E402
from xsdata.formats.dataclass.context import XmlContext  # noqa: E402
from xsdata.formats.dataclass.models.generics import DerivedElement  # noqa: E402
from xsdata.formats.dataclass.serializers.config import SerializerConfig  # noqa: E402
from xsdata.formats.dataclass.serializers.mixins import EventGenerator  # noqa: E402
from xsdata.models.enums import DataType  # noqa: E402


Exporter = bx.Exporter


# ------------------------------------------------------------------ recording
class Recorder:
    def __init__(self):
        self.on = False
        self.reset()

    def reset(self):
        self.ser = []
        self.test = []
        self.datatype = []
        self.deser = []
        self.from_qname = []


REC = Recorder()
_orig_serialize = ConverterFactory.serialize
_orig_test = ConverterFactory.test
_orig_deserialize = ConverterFactory.deserialize
_orig_from_value = DataType.from_value.__func__
_orig_from_qname = DataType.from_qname.__func__


def _serialize(self, value, **kwargs):
    res = _orig_serialize(self, value, **kwargs)
    if REC.on:
        REC.ser.append((kwargs.get("format"), value, res))
    return res


def _test(self, value, types, strict=False, **kwargs):
    res = _orig_test(self, value, types, strict, **kwargs)
    if REC.on:
        REC.test.append((value, tuple(types), bool(res)))
    return res


def _deserialize(self, value, types, **kwargs):
    try:
        res = _orig_deserialize(self, value, types, **kwargs)
    except Exception as e:  # noqa
        if REC.on:
            REC.deser.append((tuple(types), kwargs.get("format"), dict(kwargs.get("ns_map") or {}), value, None, e))
        raise
    if REC.on:
        REC.deser.append((tuple(types), kwargs.get("format"), dict(kwargs.get("ns_map") or {}), value, res, None))
    return res


def _from_value(cls, value):
    res = _orig_from_value(cls, value)
    if REC.on:
        REC.datatype.append((value, str(res), res == DataType.STRING))
    return res


def _from_qname(cls, qname):
    res = _orig_from_qname(cls, qname)
    if REC.on:
        REC.from_qname.append((qname, res))
    return res


from xsdata.formats.dataclass.models.builders import XmlMetaBuilder  # noqa: E402

BUILDS = []        # (clazz, parent_namespace) of every XmlMetaBuilder.build call
_orig_build = XmlMetaBuilder.build


def _build(self, clazz, parent_namespace):
    BUILDS.append((clazz, parent_namespace))
    return _orig_build(self, clazz, parent_namespace)


XmlMetaBuilder.build = _build
ConverterFactory.serialize = _serialize
ConverterFactory.test = _test
ConverterFactory.deserialize = _deserialize
DataType.from_value = classmethod(_from_value)
DataType.from_qname = classmethod(_from_qname)


def table_term(ex, rec=None):
    """Bind.conv_table of the recorded calls (those the Coq types can express)."""
    rec = rec or REC
    ser, test, dts, des, fqs = [], [], [], [], []
    seen = set()

    def once(kind, key):
        k = (kind, key)
        if k in seen:
            return False
        seen.add(k)
        return True

    for fmt, value, res in rec.ser:
        if not isinstance(res, str):
            continue
        try:
            p = ex.prim(value)
        except bx.Unsupported:
            continue
        t = f"({bx.copt(fmt, bx.cstr)}, {p}, {bx.cstr(res)})"
        if once("ser", (fmt, p)):
            ser.append(t)
    for value, types, res in rec.test:
        try:
            p = ex.prim(value)
            tys = bx.clist(types, ex.ptype, "ptype")
        except bx.Unsupported:
            continue
        if once("test", (p, tys)):
            test.append(f"({p}, {tys}, {bx.cbool(res)})")
    for value, name, is_string in rec.datatype:
        try:
            p = ex.prim(value)
        except bx.Unsupported:
            continue
        if once("dt", p):
            dts.append(f"({p}, ({bx.cstr(name)}, {bx.cbool(is_string)}))")
    for types, fmt, ns_map, value, res, err in rec.deser:
        if not isinstance(value, str):
            continue
        try:
            tys = bx.clist(types, ex.ptype, "ptype")
            r = "None" if err is not None else f"(Some {ex.prim(res)})"
        except bx.Unsupported:
            continue
        key = (tys, fmt, tuple(ns_map.items()), value)
        if once("deser", key):
            des.append(f"({tys}, {bx.copt(fmt, bx.cstr)}, {bx.Exporter.nsmap(ns_map)}, {bx.cstr(value)}, {r})")
    for qname, res in rec.from_qname:
        if not isinstance(qname, str) or not once("fq", qname):
            continue
        if res is None:
            fqs.append(f"({bx.cstr(qname)}, None)")
        else:
            try:
                w = "None" if res.wrapper is None else f"(Some {ex.ptype(res.wrapper)})"
                fqs.append(f"({bx.cstr(qname)}, Some ({ex.ptype(res.type)}, {bx.copt(res.format, bx.cstr)}, {w}))")
            except bx.Unsupported:
                continue
    return ("(mk_conv_table "
            + bx.clist(des, str, "list ptype * option str * nsmap * str * option prim") + " "
            + bx.clist(ser, str, "option str * prim * str") + " "
            + bx.clist(test, str, "prim * list ptype * bool") + " "
            + bx.clist(dts, str, "prim * (qname * bool)") + " "
            + bx.clist(fqs, str, "qname * option (ptype * option str * option ptype)") + ")")


ERRS = [(SerializerError, "ESerializer"), (XmlContextError, "EContext"), (AttributeError, "EAttribute"),
        (TypeError, "EType"), (KeyError, "EKey"), (IndexError, "EIndex")]


def err_term(e):
    for tp, name in ERRS:
        if type(e) is tp:
            return f"(Err {name})"
    return "(Err EUnmodelled)"      # never agrees with the model (see EventGenCorr.agree_gen)


def build_instance(ns, rec):
    """genmodels.build_instance plus DerivedElement recipes ({"__derived__": {qname, value, type}})
    and raw JSON scalars (used by the hostile instance stream)."""
    from decimal import Decimal
    from xml.etree.ElementTree import QName

    from xsdata.formats.dataclass.models.generics import AnyElement
    from xsdata.models.datatype import XmlDate, XmlDateTime, XmlDuration, XmlPeriod, XmlTime

    def b(x):
        if x is None or isinstance(x, (str, int, float, bool)):
            return x
        if isinstance(x, list):
            return [b(y) for y in x]
        if "__tuple__" in x:
            return tuple(b(y) for y in x["__tuple__"])
        if "__cls__" in x:
            return ns[x["__cls__"]](**{k: b(v) for k, v in x["fields"].items()})
        if "__any__" in x:
            a = x["__any__"]
            return AnyElement(qname=a["qname"], text=a["text"], tail=a["tail"], attributes=dict(a["attributes"]),
                              children=[b(c) for c in a["children"]])
        if "__derived__" in x:
            d = x["__derived__"]
            return DerivedElement(qname=d["qname"], value=b(d["value"]), type=d.get("type"))
        if "__map__" in x:
            return dict(x["__map__"])
        p = x["__p__"]
        v = x.get("v")
        if p == "enum":
            return ns[x["enum"]][x["member"]]
        if p in ("str", "int", "bool"):
            return v
        if p == "float":
            return float(v)
        if p == "Decimal":
            return Decimal(v)
        if p == "QName":
            return QName(v)
        if p == "bytes":
            return bytes(v)
        if p == "XmlDate":
            return XmlDate.from_string(v)
        if p == "XmlTime":
            return XmlTime.from_string(v)
        if p == "XmlDateTime":
            return XmlDateTime.from_string(v)
        if p == "XmlDuration":
            return XmlDuration(v)
        if p == "XmlPeriod":
            return XmlPeriod(v)
        raise KeyError(p)

    return b(rec)


_counter = [0]


def load(src):
    _counter[0] += 1
    name = f"genmodel_{_counter[0]}"
    mod = genmodels.load_module(src, name)
    return name, mod


def run_model(m):
    out = {"universe": None, "unsupported": None, "cases": [], "pns": None}
    del BUILDS[:]
    try:
        name, mod = load(m["src"])
    except Exception as e:  # noqa
        out["unsupported"] = "module: " + repr(e)
        return out
    ns = mod.__dict__
    try:
        classes = [ns[c] for c in m["classes"]]
        enums = [ns[e] for e in m["enums"]]
        gens = m.get("context_generators") or {}
        from xsdata.utils import text as _text
        ctx = XmlContext(**{k + "_name_generator": getattr(_text, v) for k, v in gens.items()})
        ex = Exporter(ctx, classes, enums)
        # what the name generators IN FORCE make of the Python class / field names (the real generator
        # functions; WHERE they apply is the builder model's business)
        import dataclasses as _dc
        gn = {}
        for c in classes:
            meta = c.__dict__.get("Meta")
            eg = getattr(meta, "element_name_generator", ctx.element_name_generator)
            ag = getattr(meta, "attribute_name_generator", ctx.attribute_name_generator)
            d = {"__class__": eg(c.__name__)}
            for f in _dc.fields(c):
                d[f.name] = (ag if f.metadata.get("type") == "Attribute" else eg)(f.name)
            gn[c.__name__] = d
        out["gen_names"] = gn
        for case in m["cases"]:
            res = {"value": None, "table": None, "outcome": None, "skip": None, "events": None}
            out["cases"].append(res)
            try:
                obj = build_instance(ns, case["recipe"])
                if case.get("derived"):
                    obj = DerivedElement(qname=case["derived"], value=obj)
                res["value"] = ex.value_term(obj)
            except bx.Unsupported as e:
                res["skip"] = "value: " + str(e)
                continue
            except Exception as e:  # noqa
                res["skip"] = "build: " + repr(e)
                continue
            cfg = SerializerConfig(ignore_default_attributes=bool(case.get("ignore")))
            REC.reset()
            REC.on = True
            try:
                events = list(EventGenerator(context=ctx, config=cfg).generate(obj))
                err = None
            except Exception as e:  # noqa
                events, err = None, e
            finally:
                REC.on = False
            try:
                if err is None:
                    res["outcome"] = f"(Ok {ex.wevents_term(events)})"
                    res["events"] = len(events)
                else:
                    res["outcome"] = err_term(err)
                    res["error"] = repr(err)[:300]
                res["table"] = table_term(ex)
            except bx.Unsupported as e:
                res["skip"] = "events: " + str(e)
        try:
            out["universe"] = ex.universe_term()
            first = {}
            for clazz, pn in BUILDS:
                if clazz in ex.cid and clazz not in first:
                    first[clazz] = pn
            out["pns"] = "[" + "; ".join(f"({bx.cN(ex.cid[c])}, {bx.copt(pn, bx.cstr)})" for c, pn in first.items()) + "]"
        except bx.Unsupported as e:
            out["unsupported"] = "universe: " + str(e)
        except Exception as e:  # noqa
            out["unsupported"] = "universe: " + repr(e)
    finally:
        sys.modules.pop(name, None)
    return out


def main():
    payload = json.load(sys.stdin)
    res = {"models": []}
    for m in payload["models"]:
        try:
            res["models"].append(run_model(m))
        except Exception:  # noqa
            res["models"].append({"universe": None, "unsupported": "crash: " + traceback.format_exc()[-800:], "cases": []})
    json.dump(res, sys.stdout)


if __name__ == "__main__":
    main()
