"""C02 implementation runner: the REAL xsdata XSD pipeline (through harness/codegen_run.py:
ResourceTransformer.process -> parsers/mappers -> ClassContainer.process -> Filters ->
stand-in renderer -> import) on a batch of schemas, under several generator option sets.

stdin : {"programs": [{"id", "sources": {file: text}, "root": Clark qname of the root element,
                       "option_sets": [{"name", "options": {...codegen_run options...}}],
                       "docs": [xml text...], "extra": {option-set name: [xml text...]}}]}
stdout: [ per program  {"id", "runs": [ per option set
    {"name", "status": "ok"|..., "stage", "error": {...}|None, "import_ok": bool,
     "root_class": class id | None,
     "classes": [class view ...]   binding metadata of every generated dataclass (real XmlContext.build)
     "enums":   [{"id", "values": [str]}],
     "docs": [{"ok": xml} | {"err", "msg", "stage"}], "extra": [...]}]}]
"""
import dataclasses
import enum
import gc
import json
import os
import sys

sys.path.insert(0, os.path.dirname(os.path.abspath(__file__)))
import codegen_run as CR  # noqa: E402

STRICT = dict(fail_on_unknown_properties=True, fail_on_unknown_attributes=True, fail_on_converter_warnings=True)


def cid(c):
    return c.__module__ + ":" + c.__qualname__


def lexical(v, fmt=None):
    """Textual form of a default value, as the serializer would write it."""
    from xsdata.formats.converter import converter
    if type(v) in (list, tuple):                      # XmlDate & co are NamedTuples: exact types only
        return " ".join(lexical(x, fmt) for x in v)
    if isinstance(v, enum.Enum):
        return lexical(v.value, fmt)
    try:
        return converter.serialize(v, format=fmt) if fmt else converter.serialize(v)
    except Exception:  # noqa
        return str(v)


def type_view(t):
    if isinstance(t, type) and issubclass(t, enum.Enum):
        return {"enum": cid(t), "values": [lexical(m.value) for m in t],
                "py": sorted({type(m.value).__name__ for m in t})}
    if dataclasses.is_dataclass(t):
        return {"class": cid(t)}
    return {"py": getattr(t, "__name__", repr(t))}


def kind_of(v):
    for k in ("attribute", "attributes", "element", "elements", "text", "wildcard"):
        if getattr(v, "is_" + k):
            return k
    return "?"


def sid(c, pns):
    """id of a class as bound under a parent namespace (XmlMetaBuilder.build(clazz, parent_namespace))"""
    return cid(c) + "@" + ("" if pns is None else pns)


def var_view(v, clazz=None, child_ns=None):
    fac = v.factory
    d = {"name": v.name, "qname": v.qname, "local_name": v.local_name, "index": v.index, "kind": kind_of(v),
         "list": bool(v.list_element), "factory": getattr(fac, "__name__", None) if fac else None,
         "tokens": bool(v.tokens), "tokens_factory": getattr(v.tokens_factory, "__name__", None) if v.tokens_factory else None,
         "required": bool(v.required), "init": bool(v.init), "mixed": bool(v.mixed), "nillable": bool(v.nillable),
         "namespaces": list(v.namespaces or ()), "process_contents": v.process_contents, "any_type": bool(v.any_type),
         "format": v.format, "sequence": v.sequence, "wrapper": v.wrapper,
         "types": [type_view(t) for t in v.types], "clazz": sid(v.clazz, child_ns) if v.clazz else None}
    dv = v.default() if callable(v.default) else v.default
    d["default"] = None if (dv is None or dv == [] or dv == ()) else lexical(dv, v.format)
    enum_vals = None
    for t in v.types:
        if isinstance(t, type) and issubclass(t, enum.Enum):
            enum_vals = [lexical(m.value) for m in t]
    d["enum"] = enum_vals
    d["choices"] = [var_view(c, None, child_ns) for c in v.elements.values()] + [var_view(c, None, child_ns) for c in v.wildcards]
    for c in d["choices"]:
        c["wild"] = c["kind"] == "wildcard"
    if clazz is not None:
        d["py_required"] = not field_has_default(clazz, v.name)
    return d


def field_has_default(clazz, name):
    for fl in dataclasses.fields(clazz):
        if fl.name == name:
            return not (fl.default is dataclasses.MISSING and fl.default_factory is dataclasses.MISSING) or not fl.init
    return True


def class_view(ctx, m, c, pns, dcs=()):
    """View of class c as bound under parent namespace pns (m = XmlMetaBuilder.build(c, pns)).  A class without
    Meta.namespace inherits the namespace of the place where it is used, so the same class has one view per parent
    namespace; its children are bound under THIS view's namespace (ElementNode.build_element_node)."""
    xsi = {}
    for o in dcs:
        tq = ctx.build(o).target_qname
        if tq and tq not in xsi:
            sub = ctx.find_subclass(c, tq)
            if sub is not None:
                xsi[tq] = sid(sub, pns)                 # XmlContext.fetch builds the subclass with the same parent_ns
    # own fields that replace an inherited COMPOUND field of the same Python name (dataclass inheritance is by field name)
    shadows = []
    for n in c.__dict__.get("__annotations__", {}):
        own = c.__dataclass_fields__.get(n)
        for b in c.__mro__[1:]:
            bf = getattr(b, "__dataclass_fields__", {}).get(n) if dataclasses.is_dataclass(b) else None
            if bf is not None and own is not None and bf.metadata.get("type") == "Elements" and own.metadata.get("type") != "Elements":
                shadows.append(n)
                break
    return {"id": sid(c, pns), "class": cid(c), "pns": pns, "xsi": xsi, "qname": m.qname, "target_qname": m.target_qname,
            "shadows_compound": shadows,
            "nillable": bool(m.nillable), "mixed_content": bool(m.mixed_content),
            "bases": [cid(b) for b in c.__mro__[1:] if dataclasses.is_dataclass(b)],
            "elements": [var_view(v, c, m.namespace) for v in m.get_element_vars()],
            "attributes": [var_view(v, c, m.namespace) for v in m.get_attribute_vars()]}


def roundtrip(ctx, root_cls, doc):
    from xsdata.formats.dataclass.parsers import XmlParser
    from xsdata.formats.dataclass.parsers.config import ParserConfig
    from xsdata.formats.dataclass.serializers import XmlSerializer
    import warnings
    try:
        with warnings.catch_warnings():
            warnings.simplefilter("error")
            obj = XmlParser(context=ctx, config=ParserConfig(**STRICT)).from_string(doc, root_cls)
    except BaseException as e:  # noqa
        if isinstance(e, (KeyboardInterrupt, SystemExit)):
            raise
        return {"err": type(e).__name__, "msg": str(e)[:300], "stage": "parse"}
    if type(obj) is not root_cls:
        return {"err": "WrongRootClass", "msg": f"{type(obj).__qualname__} instead of {root_cls.__qualname__}", "stage": "parse"}
    try:
        return {"ok": XmlSerializer(context=ctx).render(obj)}
    except BaseException as e:  # noqa
        if isinstance(e, (KeyboardInterrupt, SystemExit)):
            raise
        return {"err": type(e).__name__, "msg": str(e)[:300], "stage": "serialize"}


def run_one(p, oset):
    from xsdata.formats.dataclass.context import XmlContext
    out = {"name": oset["name"], "classes": [], "enums": [], "docs": [], "extra": [], "root_class": None, "import_ok": False}
    with CR.CodegenRun(p["sources"], oset["options"], entry=p.get("entry"), timeout=p.get("timeout", 30)) as run:
        res = run.result
        out.update({"status": res["status"], "stage": res["stage"], "error": res["error"] and {
            k: res["error"][k] for k in ("type", "message", "where")}, "warnings": res["warnings"][:5],
            "log": res["log"][:5]})
        if res["status"] != "ok":
            return out
        try:
            pcs = run.python_classes()
            out["import_ok"] = True
        except BaseException as e:  # noqa
            out["status"], out["error"] = "import_error", {"type": type(e).__name__, "message": str(e)[:300], "where": None}
            return out
        ctx = XmlContext()
        dcs = [c for _, _, c in pcs if dataclasses.is_dataclass(c)]
        for _, _, c in pcs:
            if isinstance(c, type) and issubclass(c, enum.Enum):
                out["enums"].append({"id": cid(c), "values": [lexical(m.value) for m in c]})
        # the class generated for the root element: the processed codegen class of tag Element with that qname
        root_cls = None
        probe = XmlContext()
        cands = []
        for c in dcs:
            try:
                if probe.build(c).qname == p["root"]:
                    cands.append(c)
            except BaseException as e:  # noqa
                out["status"], out["error"] = "bind_error", {"type": type(e).__name__, "message": str(e)[:300], "where": cid(c)}
                return out
        elem_names = set()
        for k in run.classes or []:
            if k.qname == p["root"] and k.tag == "Element":
                elem_names.add((k.target_module, run.filters.class_name(k.name)))
        pick = [c for c in cands if (c.__module__, c.__qualname__) in elem_names]
        if len(pick) == 1:
            root_cls = pick[0]
        elif len(cands) == 1:
            root_cls = cands[0]
        elif cands:
            # element and type merged or renamed: the most derived candidate
            cands.sort(key=lambda c: -len(c.__mro__))
            root_cls = cands[0]
        if root_cls is None:
            out["status"], out["error"] = "no_root_class", {"type": "NoRootClass", "message": p["root"], "where": None}
            return out
        out["root_class"] = sid(root_cls, None)
        # binding metadata per (class, parent namespace): every way a class can be reached from the root, each bound by a
        # fresh, uncached XmlMetaBuilder.build(clazz, parent_namespace) exactly as ElementNode.build_element_node /
        # XmlContext.fetch would on a cold cache (XmlContext itself caches the FIRST build of a class)
        try:
            builder = probe.get_builder()            # never the context the documents are parsed with: its cache stays cold
            work, seen = [(root_cls, None)] + [(c, None) for c in dcs if c is not root_cls], set()
            reached = set()
            while work:
                c, pns = work.pop(0)
                if pns is None and c is not root_cls and c in reached:
                    continue                        # only classes the root does not reach get a view of their own
                reached.add(c)
                if (c, pns) in seen:
                    continue
                seen.add((c, pns))
                m = builder.build(c, pns)
                view = class_view(probe, m, c, pns, dcs)
                out["classes"].append(view)
                by_cid = {cid(x): x for x in dcs}
                # whatever find_subclass may return for an xsi:type here is bound under the same parent namespace
                work.extend((by_cid[v.partition("@")[0]], pns) for v in view["xsi"].values() if v.partition("@")[0] in by_cid)
                for v in m.get_element_vars():
                    for w in [v] + list(v.elements.values()):
                        for t in w.types:
                            if dataclasses.is_dataclass(t):
                                work.append((t, m.namespace))
                                work.extend((s_, m.namespace) for s_ in dcs if s_ is not t and issubclass(s_, t))
        except BaseException as e:  # noqa
            out["status"], out["error"] = "bind_error", {"type": type(e).__name__, "message": str(e)[:300], "where": cid(c)}
            return out
        for doc in p.get("docs", []):
            out["docs"].append(roundtrip(ctx, root_cls, doc))
        by_id = {cid(c): c for c in dcs}
        for x in (p.get("extra") or {}).get(oset["name"], []):
            if isinstance(x, dict):                     # a witness replayed directly on the class view it is about
                name, _, pns = x["class"].partition("@")
                c = by_id.get(name)
                if c is None:
                    out["extra"].append({"err": "NoSuchClass", "msg": x["class"], "stage": "?"})
                    continue
                ctx2 = XmlContext()
                ctx2.build(c, pns or None)              # the view under test: bound under that parent namespace
                out["extra"].append(roundtrip(ctx2, c, x["doc"]))
            else:
                out["extra"].append(roundtrip(ctx, root_cls, x))
        if p.get("want_source"):
            out["source"] = {m["path"]: m["source"] for m in run._trace["modules"]}
    return out


def main():
    payload = json.load(sys.stdin)
    import logging
    logging.disable(logging.CRITICAL)
    real_stdout = sys.stdout
    sys.stdout = sys.stderr
    out = []
    for p in payload["programs"]:
        runs = []
        for oset in p["option_sets"]:
            try:
                runs.append(run_one(p, oset))
                # classes of finished runs must not linger: XmlContext.build_xsi_cache walks every dataclass alive in
                # the interpreter (object.__subclasses__), including those of earlier programs
                gc.collect()
            except BaseException as e:  # noqa: a harness-level failure of one run must not hide the others
                if isinstance(e, (KeyboardInterrupt, SystemExit)):
                    raise
                import traceback
                runs.append({"name": oset["name"], "status": "harness_error", "stage": "?", "import_ok": False,
                             "error": {"type": type(e).__name__, "message": traceback.format_exc()[-1500:], "where": None},
                             "classes": [], "enums": [], "docs": [], "extra": [], "root_class": None})
        out.append({"id": p.get("id"), "runs": runs})
    sys.stdout = real_stdout
    json.dump(out, sys.stdout, default=str)


if __name__ == "__main__":
    main()
