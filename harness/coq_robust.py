"""Robust evaluation of case files in Coq for the C08 / C09 harnesses (wraps common.coq_bad_matrix).

A shard that fails is not a verdict: other builders may be rebuilding shared .vo files at that moment ("inconsistent
assumptions"), a loaded machine may hit the coqc time limit, or a generated term may really be ill-typed.  So: smaller
shards; on failure rebuild the imports once and evaluate again, bisecting down to the single case that fails; a single
case whose coqc run prints an error text is `rejected` (a harness/export defect: reported as a failure, with the text),
a single case that dies without output (timeout / killed) is retried with a longer limit and otherwise counted as
`unevaluated` (reported in the evidence; a broken obligation only when more than 1 % of the cases are lost)."""
import common
from common import BuildError


def matrix(ck, tag, imports, defs, ctype, checks, cases, targets=(), shard_chars=150000, timeout=900):
    stats = {"cases": len(cases), "retried": False, "rejected": 0, "unevaluated": 0}
    try:
        return common.coq_bad_matrix(tag, imports, defs, ctype, checks, cases, shard_chars=shard_chars, timeout=timeout), stats
    except BuildError as e:
        stats["retried"] = True
        stats["first_error"] = {"target": e.target, "log": (e.log or "")[-600:] or "(no output: coqc timed out or was killed)"}
    ok, log = common.make(list(targets))
    if not ok:
        raise BuildError("make " + " ".join(targets), log[-3000:])
    out = {k: [] for k in checks}
    lost = []

    def go(lo, hi):
        if lo >= hi:
            return
        try:
            r = common.coq_bad_matrix(tag + "_r", imports, defs, ctype, checks, cases[lo:hi], shard_chars=max(shard_chars // 2, 20000),
                                      timeout=timeout * 2)
            for k, v in r.items():
                out[k] += [lo + i for i in v]
        except BuildError as e:
            if hi - lo == 1:
                text = (e.log or "").strip()
                lost.append((lo, "rejected" if "Error" in text else "unevaluated", text[-1500:]))
            else:
                mid = (lo + hi) // 2
                go(lo, mid)
                go(mid, hi)

    go(0, len(cases))
    for i, kind, text in lost:
        stats[kind] += 1
        if kind == "rejected":
            ck.failure("harness-term-rejected", f"Coq rejects the generated case {i} of {tag}: {text[-600:]}", {"case": cases[i][:4000], "log": text})
        else:
            ck.notes.append(f"{tag}: case {i} could not be evaluated (coqc timed out or was killed, no output)")
    if stats["unevaluated"] * 100 > max(len(cases), 1):
        ck.broken_obligation(f"{tag}: {stats['unevaluated']} of {len(cases)} cases unevaluated", "coqc timed out or was killed on single cases")
    for k in out:
        out[k].sort()
    return out, stats
