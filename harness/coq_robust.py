"""Robust evaluation of case files in Coq for the C08 / C09 harnesses.

Cases come in GROUPS (one per implementation job) that share definitions (universe, conversion table): a shard holds
whole groups and only THEIR definitions, so a shard stays small however many jobs a tier runs.

A shard that fails is not a verdict: other builders may be rebuilding shared .vo files at that moment ("inconsistent
assumptions"), a loaded machine may hit the coqc time limit, or a generated term may really be ill-typed.  So: on failure
rebuild the imports once and evaluate the failed shards again, bisecting down to the single case that fails; a single
case whose coqc run prints an error text is `rejected` (a harness/export defect: reported as a failure, with the text);
a single case that dies without output (timeout / killed) after the retries is `unevaluated` (listed in the evidence;
a broken obligation only when more than 1 % of the cases are lost)."""
import concurrent.futures as cf
import os
import re

import common
from common import BuildError

_BAD = """Fixpoint bad_idx {A} (f : A -> bool) (i : nat) (l : list A) : list nat :=
  match l with [] => [] | x :: r => if f x then bad_idx f (S i) r else i :: bad_idx f (S i) r end."""


def _run_shard(tag, k, imports, defs, ctype, checks, cases, timeout):
    """cases: list of (global index, term).  Returns (ok, {name: [global idx]}, log)"""
    names = list(checks)
    path = os.path.join(common.CORR, f"cases_{tag}_{os.getpid()}_g{k}.v")
    body = [imports, "From Coq Require Import NArith ZArith List Bool.", "Import ListNotations.", defs,
            f"Definition the_cases : list ({ctype}) := [", ";\n".join(t for _, t in cases), "].", _BAD]
    for j, nm in enumerate(names):
        body.append(f"Definition the_check_{j} : ({ctype}) -> bool := {checks[nm]}.")
    body.append("Eval vm_compute in (" + ", ".join(f"bad_idx the_check_{j} 0 the_cases" for j in range(len(names))) + ", tt).")
    with open(path, "w") as f:
        f.write("\n".join(body) + "\n")
    rc, o, err = common._coqc(path, timeout)
    base = path[:-2]
    for ext in (".v", ".vo", ".vok", ".vos", ".glob"):
        try:
            os.remove(base + ext)
        except FileNotFoundError:
            pass
    try:
        os.remove(os.path.join(common.CORR, "." + os.path.basename(base) + ".aux"))
    except FileNotFoundError:
        pass
    if rc != 0:
        return False, None, (o + err).strip() or f"(no output, exit status {rc}: coqc timed out or was killed)"
    lists = re.findall(r"\[([^\]]*)\]", o[o.index("="):] if "=" in o else o)
    if len(lists) < len(names):
        return False, None, "unparsable output: " + o[-500:]
    out = {}
    for nm, l in zip(names, lists):
        out[nm] = [cases[int(x)][0] for x in re.findall(r"\d+", l)]
    return True, out, ""


def matrix_grouped(ck, tag, imports, common_defs, groups, ctype, checks, targets=(), shard_chars=250000, timeout=900):
    """groups: list of (defs text of the group, [case terms]).  Returns ({check: [bad global indices]}, stats);
    global index = position in the concatenation of the groups' cases."""
    os.makedirs(common.CORR, exist_ok=True)
    items = []          # (group defs, [(global idx, term)])
    n = 0
    for gdefs, terms in groups:
        items.append((gdefs, [(n + i, t) for i, t in enumerate(terms)]))
        n += len(terms)
    stats = {"cases": n, "shards": 0, "retried_shards": 0, "rejected": 0, "unevaluated": 0}
    shards, cur, size = [], [], 0
    for gdefs, cs in items:
        if not cs:
            continue
        gsize = len(gdefs) + sum(len(t) for _, t in cs)
        if cur and size + gsize > shard_chars:
            shards.append(cur)
            cur, size = [], 0
        cur.append((gdefs, cs))
        size += gsize
    if cur:
        shards.append(cur)
    stats["shards"] = len(shards)
    out = {k: [] for k in checks}

    def run(k, shard, tmo):
        defs = common_defs + "\n" + "\n".join(g for g, _ in shard)
        return _run_shard(tag, k, imports, defs, ctype, checks, [c for _, cs in shard for c in cs], tmo)

    with cf.ThreadPoolExecutor(max_workers=12) as ex:
        results = list(ex.map(lambda ks: run(ks[0], ks[1], timeout), enumerate(shards)))
    failed = []
    for shard, (ok, r, log) in zip(shards, results):
        if ok:
            for k, v in r.items():
                out[k] += v
        else:
            failed.append((shard, log))
    if failed:
        stats["retried_shards"] = len(failed)
        stats["first_error"] = failed[0][1][-600:]
        ok, log = common.make(list(targets))
        if not ok:
            raise BuildError("make " + " ".join(targets), log[-3000:])
        lost = []
        counter = [len(shards)]

        def go(shard):
            counter[0] += 1
            ok, r, log = run(counter[0], shard, timeout * 2)
            if ok:
                for k, v in r.items():
                    out[k] += v
                return
            ncases = sum(len(cs) for _, cs in shard)
            if ncases == 1:
                idx = [c for _, cs in shard for c in cs][0][0]
                lost.append((idx, "rejected" if "Error" in log else "unevaluated", log[-1500:], [c for _, cs in shard for c in cs][0][1]))
            elif len(shard) > 1:
                mid = len(shard) // 2
                go(shard[:mid])
                go(shard[mid:])
            else:
                gdefs, cs = shard[0]
                mid = len(cs) // 2
                go([(gdefs, cs[:mid])])
                go([(gdefs, cs[mid:])])

        for shard, _ in failed:          # sequentially: the machine is probably loaded
            go(shard)
        for idx, kind, text, term in lost:
            stats[kind] += 1
            if kind == "rejected":
                ck.failure("harness-term-rejected", f"Coq rejects the generated case {idx} of {tag}: {text[-600:]}", {"case": term[:4000], "log": text})
            else:
                ck.notes.append(f"{tag}: case {idx} could not be evaluated: {text[-200:]}")
        if stats["unevaluated"] * 100 > max(n, 1):
            ck.broken_obligation(f"{tag}: {stats['unevaluated']} of {n} cases unevaluated", "coqc timed out or was killed on single cases")
    for k in out:
        out[k].sort()
    return out, stats


def matrix(ck, tag, imports, defs, ctype, checks, cases, targets=(), shard_chars=150000, timeout=900):
    """ungrouped form: every case is its own group, `defs` common to all"""
    return matrix_grouped(ck, tag, imports, defs, [("", [c]) for c in cases], ctype, checks, targets=targets,
                          shard_chars=shard_chars, timeout=timeout)
