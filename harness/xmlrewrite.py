"""Meaning-preserving rewrites of XML documents (property C09) and an infoset reader.

rewrite(xml_text, kinds, rng) -> bytes     kinds ⊆ KINDS; every rewrite keeps the infoset
(element/attribute names and namespaces, attribute values, text, order) unchanged, as
checked by `infoset(before) == infoset(after)` (whitespace rewrites excepted by design:
they are only applied where the caller says content is element-only / non-string).
"""
import io

from lxml import etree

KINDS = ["prefixes", "default_ns", "attr_order", "ws_between_children", "comments_pis", "cdata", "charrefs",
         "encoding", "value_ws", "quotes", "comment_in_text", "qname_attrs"]
XSI_TYPE = "{http://www.w3.org/2001/XMLSchema-instance}type"


def infoset(xml_bytes):
    """canonical infoset: comments and PIs dropped, the character data around them joined"""
    root = etree.fromstring(xml_bytes)

    def conv(e):
        text = e.text or ""
        children = []
        for c in e:
            if isinstance(c.tag, str):
                children.append(conv(c) + [c.tail or ""])
            else:                               # comment / PI: its tail belongs to the surrounding text
                if children:
                    children[-1][-1] += c.tail or ""
                else:
                    text += c.tail or ""
        attrs = []
        for k, v in e.attrib.items():
            if k == XSI_TYPE:                    # a QName: compare what it denotes, not how it is spelled
                pfx, _, loc = v.strip().rpartition(":")
                uri = e.nsmap.get(pfx or None)
                v = ("{%s}%s" % (uri, loc)) if uri else loc
            attrs.append((k, v))
        return [e.tag, sorted(attrs), text, children]
    return conv(root)


def _esc_text(s, charrefs, rng):
    out = []
    for ch in s:
        if ch == "&":
            out.append("&amp;")
        elif ch == "<":
            out.append("&lt;")
        elif ch == ">":
            out.append("&gt;")
        elif ch == "\r":
            out.append("&#13;")
        elif charrefs and rng.random() < 0.3 and ch not in "\n\t":
            out.append(("&#x%X;" % ord(ch)) if rng.random() < 0.5 else ("&#%d;" % ord(ch)))
        else:
            out.append(ch)
    return "".join(out)


def _esc_attr(s, charrefs, rng, quote):
    out = []
    for ch in s:
        if ch == "&":
            out.append("&amp;")
        elif ch == "<":
            out.append("&lt;")
        elif ch == quote:
            out.append("&quot;" if quote == '"' else "&apos;")
        elif ch in "\n\r\t":
            out.append("&#%d;" % ord(ch))
        elif charrefs and rng.random() < 0.3:
            out.append("&#x%X;" % ord(ch))
        else:
            out.append(ch)
    return "".join(out)


def _cdata(s, rng):
    # split "]]>" safely
    parts = s.split("]]>")
    return "]]]]><![CDATA[>".join(parts).join(["<![CDATA[", "]]>"])


def rewrite(xml_text, kinds, rng, element_only=None, pad_values=False):
    """element_only: None or a predicate on lxml elements telling where inter-child whitespace is allowed;
    pad_values: surround every text/attribute value with XML whitespace (caller guarantees non-string types)."""
    kinds = set(kinds)
    enc = "utf-8"
    if "encoding" in kinds:
        enc = rng.choice(["utf-16", "iso-8859-1", "us-ascii", "utf-8"])
        if enc in ("iso-8859-1", "us-ascii"):
            kinds.discard("cdata")        # character references are not recognised inside CDATA
    root = etree.fromstring(xml_text.encode() if isinstance(xml_text, str) else xml_text)
    fresh = {}
    out = []
    use_default = "default_ns" in kinds
    new_prefixes = "prefixes" in kinds or use_default
    default_uri = None
    if use_default:
        default_uri = etree.QName(root).namespace
        # an unqualified element somewhere would need xmlns="" handling; keep it simple and correct:
        # every unqualified element redeclares xmlns="" (done below)

    def prefix_for(uri):
        if uri not in fresh:
            fresh[uri] = "r%d" % len(fresh)
        return fresh[uri]

    def ws():
        return rng.choice(["\n", " ", "\n  ", "\t", " \n "])

    def emit(e, parent_map, in_default):
        # keep the element's own original declarations (QName-valued content may depend on them)
        own = {p: u for p, u in e.nsmap.items() if parent_map.get(p) != u}
        decls = []
        cur_map = dict(parent_map)
        for p, u in own.items():
            if p is None and new_prefixes:
                continue                      # we decide about the default namespace ourselves
            cur_map[p] = u
            decls.append((p, u))
        q = etree.QName(e)
        names_needed = [q.namespace] + [etree.QName(k).namespace for k in e.attrib]
        now_default = in_default
        tagname = q.localname
        if new_prefixes:
            if use_default and q.namespace == default_uri and default_uri:
                if in_default != default_uri:
                    decls.append((None, default_uri))
                    now_default = default_uri
            elif q.namespace:
                p = prefix_for(q.namespace)
                if cur_map.get(p) != q.namespace:
                    decls.append((p, q.namespace))
                    cur_map[p] = q.namespace
                tagname = p + ":" + q.localname
            else:
                if in_default:
                    decls.append((None, ""))
                    now_default = None
        else:
            if e.prefix:
                tagname = e.prefix + ":" + q.localname
            now_default = cur_map.get(None)
        attrs = []
        for k, v in e.attrib.items():
            aq = etree.QName(k)
            if k == XSI_TYPE and new_prefixes and "qname_attrs" in kinds:
                # the value is a QName: spell it with the new prefixes (or unprefixed under the default namespace)
                pfx, _, loc = v.strip().rpartition(":")
                uri = e.nsmap.get(pfx or None)
                if uri is None and not pfx:
                    v = loc if not now_default else v      # stays unqualified only if no default namespace is in scope
                elif uri is not None:
                    if now_default == uri:
                        v = loc
                    else:
                        p2 = prefix_for(uri)
                        if cur_map.get(p2) != uri:
                            decls.append((p2, uri))
                            cur_map[p2] = uri
                        v = p2 + ":" + loc
            if aq.namespace:
                if aq.namespace == "http://www.w3.org/XML/1998/namespace":
                    p = "xml"
                elif new_prefixes:
                    p = prefix_for(aq.namespace)
                    if cur_map.get(p) != aq.namespace:
                        decls.append((p, aq.namespace))
                        cur_map[p] = aq.namespace
                else:
                    p = next(pp for pp, uu in cur_map.items() if uu == aq.namespace and pp)
                attrs.append((p + ":" + aq.localname, v))
            else:
                attrs.append((aq.localname, v))
        if "attr_order" in kinds:
            rng.shuffle(attrs)
            rng.shuffle(decls)
        items = []
        for p, u in decls:
            items.append(("xmlns" if p is None else "xmlns:" + p, u, False))
        for n, v in attrs:
            items.append((n, v, True))
        if "attr_order" in kinds:
            rng.shuffle(items)
        out.append("<" + tagname)
        for n, v, is_attr in items:
            quote = rng.choice(['"', "'"]) if "quotes" in kinds else '"'
            if pad_values and is_attr and not n.startswith("xmlns") and "value_ws" in kinds:
                v = rng.choice(["", " ", "\n"]) + v + rng.choice(["", " ", "\t"])
                # whitespace inside attribute values must be written literally spaces (normalised by the parser)
                val = "".join({"\n": "&#10;", "\t": "&#9;"}.get(c, c) for c in _esc_attr(v.replace("\n", " ").replace("\t", " "), "charrefs" in kinds, rng, quote))
            else:
                val = _esc_attr(v, "charrefs" in kinds and is_attr, rng, quote)
            out.append((" " if rng.random() < 0.8 or "attr_order" not in kinds else "\n  ") + n + "=" + quote + val + quote)
        children = [c for c in e if isinstance(c.tag, str)]
        text = e.text or ""
        if not children and not text and rng.random() < 0.5:
            out.append("/>")
        else:
            out.append(">")
            eo = element_only is not None and element_only(e) and "ws_between_children" in kinds
            if text:
                t = text
                if pad_values and "value_ws" in kinds and not children:
                    t = rng.choice(["", " ", "\n", "\t "]) + t + rng.choice(["", " ", "\n"])
                if "comment_in_text" in kinds and len(t) >= 2 and rng.random() < 0.6:
                    k = rng.randrange(1, len(t))
                    out.append(_esc_text(t[:k], "charrefs" in kinds, rng) + rng.choice(["<!--x-->", "<?p?>"])
                               + _esc_text(t[k:], "charrefs" in kinds, rng))
                elif "cdata" in kinds and rng.random() < 0.5:
                    out.append(_cdata(t, rng))
                else:
                    out.append(_esc_text(t, "charrefs" in kinds, rng))
            elif eo:
                out.append(ws())
            for c in children:
                if "comments_pis" in kinds and rng.random() < 0.4 and (eo or not (text or c.getprevious() is not None and c.getprevious().tail)):
                    pass
                if "comments_pis" in kinds and rng.random() < 0.4:
                    out.append(rng.choice(["<!-- a comment -->", "<?pi some data?>", "<!---->"]))
                emit(c, cur_map, now_default)
                tail = c.tail or ""
                if tail:
                    if "cdata" in kinds and rng.random() < 0.3:
                        out.append(_cdata(tail, rng))
                    else:
                        out.append(_esc_text(tail, "charrefs" in kinds, rng))
                elif eo:
                    out.append(ws())
                if "comments_pis" in kinds and rng.random() < 0.3:
                    out.append("<!--x-->")
            out.append("</" + tagname + ">")

    emit(root, {}, None)
    body = "".join(out)
    head = ""
    if enc != "utf-8" or rng.random() < 0.5:
        head = '<?xml version="1.0" encoding="%s"?>' % enc + rng.choice(["", "\n"])
    if "comments_pis" in kinds:
        head += rng.choice(["", "<!-- prolog comment -->\n", "<?target data?>"])
    doc = head + body + (rng.choice(["", "\n", "<!-- epilog -->"]) if "comments_pis" in kinds else "")
    if enc in ("iso-8859-1", "us-ascii"):
        return doc.encode(enc, errors="xmlcharrefreplace")
    return doc.encode(enc)
