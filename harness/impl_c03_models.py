"""Hand-written binding models for stream (b) of the C03 check, and a builder of
instances from JSON descriptions (runs under the implementation interpreter)."""
from dataclasses import dataclass, field
from typing import Optional
from xml.etree.ElementTree import QName

from xsdata.formats.dataclass.models.generics import AnyElement, DerivedElement

XML_NS = "http://www.w3.org/XML/1998/namespace"


@dataclass
class Item:
    class Meta:
        name = "item"
        namespace = "urn:a"

    id: Optional[str] = field(default=None, metadata={"type": "Attribute"})
    lang: Optional[str] = field(default=None, metadata={"type": "Attribute", "name": "lang", "namespace": XML_NS})
    ref: Optional[QName] = field(default=None, metadata={"type": "Attribute"})
    q: Optional[str] = field(default=None, metadata={"type": "Attribute", "namespace": "urn:q"})
    value: Optional[str] = field(default=None, metadata={"type": "Text"})


@dataclass
class ItemExt(Item):
    class Meta:
        name = "itemExt"
        namespace = "urn:a"

    extra: Optional[str] = field(default=None, metadata={"type": "Attribute"})


@dataclass
class Plain:
    """No namespace at all."""

    a: Optional[str] = field(default=None, metadata={"type": "Element"})
    b: list[str] = field(default_factory=list, metadata={"type": "Element", "tokens": True})
    n: Optional[str] = field(default=None, metadata={"type": "Element", "nillable": True})


@dataclass
class Root:
    class Meta:
        name = "root"
        namespace = "urn:r"

    items: list[Item] = field(default_factory=list, metadata={"type": "Element", "name": "item", "namespace": "urn:a"})
    note: Optional[str] = field(default=None, metadata={"type": "Element", "nillable": True})
    qn: Optional[QName] = field(default=None, metadata={"type": "Element", "namespace": ""})
    plain: Optional[Plain] = field(default=None, metadata={"type": "Element", "namespace": ""})
    other: list[object] = field(default_factory=list, metadata={"type": "Wildcard", "namespace": "##any"})
    attrs: dict[str, str] = field(default_factory=dict, metadata={"type": "Attributes"})
    wrapped: list[str] = field(default_factory=list, metadata={"type": "Element", "wrapper": "wrap", "name": "w"})


@dataclass
class Mixed:
    class Meta:
        name = "mixed"
        namespace = "urn:m"

    content: list[object] = field(default_factory=list,
                                  metadata={"type": "Wildcard", "namespace": "##any", "mixed": True})


@dataclass
class NilRoot:
    class Meta:
        name = "nilroot"
        nillable = True

    v: Optional[str] = field(default=None, metadata={"type": "Element", "nillable": True})
    t: Optional[QName] = field(default=None, metadata={"type": "Attribute", "namespace": "urn:a"})


CLASSES = {c.__name__: c for c in (Item, ItemExt, Plain, Root, Mixed, NilRoot)}


def build(d):
    if d is None or isinstance(d, (str, int, float, bool)):
        return d
    if isinstance(d, list):
        return [build(x) for x in d]
    if "qname" in d and len(d) == 1:
        return QName(d["qname"])
    if "any" in d:
        a = d["any"]
        return AnyElement(qname=a.get("qname"), text=a.get("text"), tail=a.get("tail"),
                          attributes=dict(a.get("attributes") or {}),
                          children=[build(x) for x in a.get("children") or []])
    if "derived" in d:
        x = d["derived"]
        return DerivedElement(qname=x["qname"], value=build(x["value"]), type=x.get("type"))
    if "cls" in d:
        cls = CLASSES[d["cls"]]
        kw = {}
        for k, v in d["fields"].items():
            if k == "attrs":
                kw[k] = dict(v)
            else:
                kw[k] = build(v)
        return cls(**kw)
    raise ValueError(d)
