"""C14 — parsers, serializers and the binding context are history-independent.

Deciding artefact: theorems of coq/Properties/C14.v over Model/Context.v (the
XmlContext state machine, the namespace-dependent part of the binding metadata,
clients as scripts).  Tie: Gen/ContextTables.v regenerated from /repo, and a
differential correspondence on operation sequences: the REAL shared XmlContext /
XmlParser / XmlSerializer / JsonParser / JsonSerializer / DictDecoder / DictEncoder
instances against fresh ones, call by call, and against the model's prediction of
every result and of every logged context access (which class is built under which
parent namespace, which qname is looked up).
Search: the property's own oracle (shared == fresh) on the implementation for every
call; a difference is a KNOWN-FINDING only if the model reproduces it through one
of the modelled defects deviating in that very call.
"""
import concurrent.futures as cf
import itertools
import os
import re
import time

import common
from common import Check, run_impl, standard_proof_step, TRUSTED_COMMON
from coqterm import cstr, cbool, copt, clist

IMPORTS = "From XV Require Import Base.Str Model.Context Model.ContextCorr."

# ------------------------------------------------------------------ the pool of models
def F(name, kind="elem", type="str", lst=False, ns=None, pytype=None, md=None):
    """pytype / md: the Python annotation and extra field metadata of a field whose
    binding is outside the modelled fragment (the class is then only used by opaque
    operations; the model still needs its names and namespaces)"""
    return {"name": name, "kind": kind, "type": type, "list": lst, "ns": ns, "pytype": pytype, "md": md}


def C(cid, name, ns=None, tns=None, parent=None, own=(), glob=True, broken=False, ok=True):
    """broken: generated with two Text fields; ok=False: the fields are generated as described but
    XmlMetaBuilder.build refuses the class (e.g. a field type without a converter)"""
    return {"cid": cid, "name": name, "ns": ns, "tns": tns, "parent": parent, "own_fields": list(own),
            "global": glob, "broken": broken, "ok": ok}


STATIC = [
    C(1, "Leaf", own=[F("x"), F("k", "attr")]),
    C(2, "PA", ns="urn:a", own=[F("leaf", type=1), F("items", type=1, lst=True), F("t")]),
    C(3, "PB", ns="urn:b", own=[F("leaf", type=1), F("t")]),
    C(4, "Mid", own=[F("leaf", type=1), F("w")]),
    C(5, "PC", ns="urn:c", own=[F("mid", type=4), F("alien", type=1, ns="urn:x")]),
    C(18, "Ext", ns="urn:h", own=[F("lx")]),                       # shares its qname with class 19, created earlier
    C(6, "Base", ns="urn:h", own=[F("b")]),
    C(7, "Der", parent=6, own=[F("d")]),
    C(8, "Der2", ns="urn:h2", parent=6, own=[F("e")]),
    C(9, "Holder", ns="urn:h", own=[F("item", type=6), F("items", type=6, lst=True)]),
    C(10, "Wild", ns="urn:w", own=[F("any", "wild", "any", True, "##any")]),
    C(11, "WildO", ns="urn:a", own=[F("one", "wild", "any", False, "##other"), F("t")]),
    C(12, "Own", ns="urn:o", own=[F("oleaf", type=13), F("n", "attr")]),
    C(13, "OwnLeaf", ns="urn:o", own=[F("y")]),
    C(14, "Broken", ns="urn:k", broken=True),
    C(15, "Tgt", tns="urn:t", own=[F("z")]),
    C(16, "Dep", ns="urn:p", own=[F("br", type=14), F("pleaf", type=1)]),
    C(17, "WildT", ns="urn:a", own=[F("tany", "wild", "any", True, "##targetNamespace")]),
    C(19, "Ext", ns="urn:h", parent=6, own=[F("ex")]),                         # Ext(Base): same target qname as class 18
    # classes whose binding is outside the modelled fragment: used by opaque operations only
    C(30, "Alpha", own=[F("ax", pytype="Optional[int]")]),
    C(31, "Beta", own=[F("by", pytype="Optional[int]")]),
    C(32, "UHolder", ns="urn:u", own=[F("item", pytype='Optional[Union["_C30", "_C31"]]'), F("uleaf", type=1)]),
    C(33, "Num", own=[F("n", pytype="Optional[int]"), F("fl", "attr", pytype="Optional[float]")]),
    C(34, "Tok", ns="urn:u", own=[F("toks", lst=True, pytype="List[int]", md={"tokens": True}), F("tleaf", type=1)]),
    C(35, "Cmp", ns="urn:u", own=[F("choice", lst=True, pytype="List[object]",
                                    md={"choices": [["ca", "int"], ["cb", "str"], ["cl", "_C1"]]})]),
    C(36, "Nil", ns="urn:u", own=[F("nv", pytype="Optional[str]", md={"nillable": True}), F("nleaf", type=1)]),
    # user subclasses of primitive types as values and as field types (Money(Decimal) has no converter of its own)
    C(37, "MoneyHolder", own=[F("amount", pytype="Optional[Decimal]"), F("count", pytype="Optional[int]"),
                              F("label", "attr")]),
    C(38, "MoneyTyped", own=[F("price", pytype='Optional["Money"]')], ok=False),
    # a QName-typed field (prefix resolution against the element's in-scope namespaces)
    C(26, "RefBox", own=[F("ref", pytype="Optional[QName]"), F("rleaf", type=1)]),
    # an attributes wildcard and an element wildcard on one class / on separate classes: the same qualified name
    # may come once as an undeclared attribute and once as an undeclared child
    C(27, "Bag", own=[F("attrs", "attrs", pytype="Dict[str, str]"), F("content", "wild", "any", True, "##any")]),
    C(28, "BagA", own=[F("attrs", "attrs", pytype="Dict[str, str]"), F("bx")]),
    C(29, "BagE", own=[F("content", "wild", "any", True, "##any"), F("by", "attr")]),
    # an element before and after a wildcard: get_element_vars has to sort (wildcards come first in its chain)
    C(25, "WildMid", ns="urn:w", own=[F("head"), F("body", "wild", "any", True, "##any"), F("foot")]),
    # QName element / attribute values in a namespaced class: text sources and TREE sources through one parser
    # (the prefixes a tree source gets are generated per call; the parser's own recorder must not take part)
    C(39, "NsRef", ns="urn:r", own=[F("ref", pytype="Optional[QName]"), F("kind", "attr", pytype="Optional[QName]")]),
]
# compound (Elements / choices) fields with several primitive choices in every order: a str value is
# matched to the FIRST choice whose converter accepts it, so which element a value is written as /
# decoded into depends on the value, never on what the cached XmlVar has seen before
PRIMS = {"int": ("i", "123", 7), "float": ("f", "1.5", 2.5), "bool": ("b", "true", True), "XmlDate": ("d", "2020-01-02", "2021-03-04")}
COMPOUND = {}


def _compound_classes():
    out, cid = [], 40
    for t in PRIMS:
        for order in ("first", "last"):
            ch = [["p", t], ["txt", "str"]] if order == "first" else [["txt", "str"], ["p", t]]
            name = f"Cmp{t}{order.capitalize()}"
            COMPOUND[cid] = (name, [t])
            out.append(C(cid, name, own=[F("items", lst=True, pytype="List[object]", md={"choices": ch})]))
            cid += 1
    for name, ch in (("CmpIntFloatStr", [["p", "int"], ["g", "float"], ["txt", "str"]]),
                     ("CmpBoolIntStr", [["b", "bool"], ["p", "int"], ["txt", "str"]]),
                     ("CmpStrIntFloat", [["txt", "str"], ["p", "int"], ["g", "float"]])):
        COMPOUND[cid] = (name, [c[1] for c in ch if c[1] != "str"])
        out.append(C(cid, name, own=[F("items", lst=True, pytype="List[object]", md={"choices": ch})]))
        cid += 1
    return out


STATIC += _compound_classes()
DYNAMIC = [
    C(20, "Late", ns="urn:late", own=[F("x")]),
    C(21, "LateDer", parent=6, own=[F("z2")]),
    C(22, "Leaf", own=[F("x"), F("q2")]),          # a namesake of class 1, created later
    C(23, "Own2", ns="urn:o", own=[F("oleaf", type=13)]),
]
ALL = {d["cid"]: d for d in STATIC + DYNAMIC}


def full_fields(d):
    """All dataclass fields (inherited first) with the namespace override that
    XmlMetaBuilder.build_vars applies to fields declared in a base class."""
    out = []
    if d["parent"] is not None:
        p = ALL[d["parent"]]
        for f in full_fields(p):
            g = dict(f)
            if g["base_ns"] is None and g["owner"] == p["cid"]:
                g["base_ns"] = p["ns"]
            out.append(g)
    for f in d["own_fields"]:
        g = dict(f)
        g["owner"] = d["cid"]
        g["base_ns"] = None
        out.append(g)
    return out


# ------------------------------------------------------------------ Gallina printers
def ostr(s):
    return copt(s, cstr)


def c_field(f):
    kind = {"attr": "KAttr", "elem": "KElem", "wild": "KWild", "attrs": "KAttr"}[f["kind"]]
    t = f["type"]
    ty = "TStr" if t == "str" else "TAny" if t == "any" else f"(TCls {t}%N)"
    return f"(mkF {cstr(f['name'])} {kind} {ostr(f['ns'])} {ty} {cbool(f['list'])} {ostr(f['base_ns'])})"


def c_class(d):
    fields = clist([c_field(f) for f in full_fields(d)] if not d["broken"] else [], str, "fdesc")
    par = "None" if d["parent"] is None else f"(Some {d['parent']}%N)"
    return (f"(mkC {d['cid']}%N {cstr(d['name'])} {ostr(d['ns'])} {ostr(d['tns'])} {cbool(d['global'])} {par} "
            f"{fields} {cbool(not d['broken'] and d.get('ok', True))})")


def c_ambient(a):
    fields = clist([f"(mkF {cstr(n)} KElem None TStr false None)" for n in a["fields"]], str, "fdesc")
    par = "None" if a["parent"] is None else f"(Some {a['parent']}%N)"
    return (f"(mkC {a['cid']}%N {cstr(a['name'])} {ostr(a['ns'])} {ostr(a['tns'])} {cbool(a['global'])} {par} "
            f"{fields} {cbool(a['ok'])})")


def c_value(v):
    k = v[0]
    if k == "str":
        return f"(V (GStr {cstr(v[1])}) [])"
    if k == "obj":
        fs = clist([f"(V GField {clist([c_value(x) for x in items], str, 'value')})" for items in v[2]], str, "value")
        return f"(V (GObj {v[1]}%N) {fs})"
    if k == "any":
        return f"(V (GAny {cstr(v[1])} {ostr(v[2])}) [])"
    if k == "der":
        return f"(V (GDer {cstr(v[1])} {ostr(v[2])}) [{c_value(v[3])}])"
    raise KeyError(k)


def c_json(j):
    if isinstance(j, str):
        return f"(J (JS {cstr(j)}) [])"
    if isinstance(j, list):
        return f"(J JA {clist([c_json(x) for x in j], str, 'json')})"
    if isinstance(j, dict):
        return "(J JO " + clist([f"(J (JK {cstr(k)}) [{c_json(v)}])" for k, v in j.items()], str, "json") + ")"
    raise TypeError(j)


def c_tree(t):
    return f"(Node {cstr(t[0])} {clist([c_tree(k) for k in t[1]], str, 'tree')})"


def c_res(r):
    if "ok" in r:
        return f"(ROk {c_tree(r['ok'])})"
    return f"(RErr {cstr(r['err'])} {cstr(r['msg'])})"


def c_otrace(tr):
    out = []
    for e in tr:
        if e[0] == "b":
            out.append(f"(OBuild {e[1]}%N {ostr(e[2])})")
        else:
            out.append(f"(OLookup {cstr(e[1])} {clist([f'{c}%N' for c in e[2]], str, 'N')})")
    return clist(out, str, "otev")


def c_events(evs):
    out = []
    for e in evs:
        if e[0] == "ns":
            out.append(f"(PNs {ostr(e[1])} {cstr(e[2])})")
        elif e[0] == "start":
            attrs = clist([f"({cstr(k)}, {cstr(v)})" for k, v in e[2]], str, "(str * str)")
            out.append(f"(PStart {cstr(e[1])} {attrs} {ostr(e[3])})")
        elif e[0] == "end":
            out.append(f"(PEnd {cstr(e[1])} {ostr(e[2])})")
        else:
            out.append("PBad")
    return clist(out, str, "pevent")


def c_call(name, a):
    if name == "build":
        return f"(CBuild {a[0]}%N {ostr(a[1])})"
    if name == "fetch":
        return f"(CFetch {a[0]}%N {ostr(a[1])} {ostr(a[2])})"
    if name == "find_type":
        return f"(CFindType {cstr(a[0])})"
    if name == "find_types":
        return f"(CFindTypes {cstr(a[0])})"
    if name == "find_subclass":
        return f"(CFindSubclass {a[0]}%N {cstr(a[1])})"
    if name == "find_type_by_fields":
        return f"(CFindByFields {clist([cstr(x) for x in a[0]], str, 'str')})"
    if name == "local_names_match":
        return f"(CLocalNamesMatch {clist([cstr(x) for x in a[0]], str, 'str')} {a[1]}%N)"
    if name == "build_recursive":
        return f"(CBuildRecursive {a[0]}%N {ostr(a[1])})"
    if name == "build_xsi_cache":
        return "CBuildXsi"
    if name == "reset":
        return "CReset"
    raise KeyError(name)


def c_op(op):
    k = op["kind"]
    cz = "None" if op.get("clazz") is None else f"(Some {op['clazz']}%N)"
    if k == "ser":
        return f"(OSerialize {c_value(op['value'])})"
    if k in ("enc", "jser"):
        return f"(OEncode {c_value(op['value'])})"
    if k == "parse":
        return f"(OParse {c_events(op['events'])} {cz})"
    if k in ("dec", "jparse"):
        return f"(ODecode {c_json(op['data'])} {cz})"
    if k == "call":
        return f"(OCall {c_call(op['name'], op['args'])})"
    raise KeyError(k)


# ------------------------------------------------------------------ documents
XSI = "http://www.w3.org/2001/XMLSchema-instance"


def split_q(q):
    if q.startswith("{"):
        u, _, l = q[1:].partition("}")
        return u, l
    return None, q


def doc_of_tree(t):
    """canonical element tree -> document description (q, attrs, xsi, text, kids)"""
    attrs, xsi, text, kids = [], None, None, []
    for k in t[1]:
        lab = k[0]
        if lab.startswith("@"):
            name, _, val = lab[1:].partition("=")
            if name == "{%s}type" % XSI:
                xsi = val
            else:
                attrs.append((name, val))
        elif lab.startswith("#"):
            text = lab[1:]
        else:
            kids.append(doc_of_tree(k))
    return {"q": t[0], "attrs": attrs, "xsi": xsi, "text": text, "kids": kids}


def doc_tokens(doc):
    """[(xml text, event)] for a compact document; all namespaces declared on the root."""
    uris = []

    def collect(d):
        for q in [d["q"], d["xsi"]] + [a for a, _ in d["attrs"]]:
            if q:
                u, _ = split_q(q)
                if u and u not in uris:
                    uris.append(u)
        for k in d["kids"]:
            collect(k)

    collect(doc)
    has_xsi = []

    def any_xsi(d):
        if d["xsi"]:
            has_xsi.append(1)
        for k in d["kids"]:
            any_xsi(k)

    any_xsi(doc)
    pref = {u: f"p{i}" for i, u in enumerate(uris)}
    if has_xsi:
        pref[XSI] = "xsi"

    def name(q):
        u, l = split_q(q)
        return f"{pref[u]}:{l}" if u else l

    toks = []

    def esc(s):
        return s.replace("&", "&amp;").replace("<", "&lt;").replace('"', "&quot;")

    def walk(d, root):
        s = "<" + name(d["q"])
        if root:
            for u, p in pref.items():
                s += f' xmlns:{p}="{u}"'
                toks.append(("", ("ns", p, u)))
        for a, v in d["attrs"]:
            s += f' {name(a)}="{esc(v)}"'
        if d["xsi"]:
            s += f' xsi:type="{name(d["xsi"])}"'
        s += ">"
        toks.append((s, ("start", d["q"], list(d["attrs"]), d["xsi"])))
        if d["text"]:
            toks.append((esc(d["text"]), None))
        for k in d["kids"]:
            walk(k, False)
        toks.append((f"</{name(d['q'])}>", ("end", d["q"], d["text"])))

    walk(doc, True)
    return toks


def render_doc(doc, cut=None):
    """(xml text, model events).  cut = number of tokens kept (a syntax error follows)."""
    toks = doc_tokens(doc)
    # the ns tokens carry no text of their own: they belong to the root start tag
    text, events = "", []
    real = [t for t in toks if t[0]]
    ns = [t[1] for t in toks if not t[0]]
    events += ns
    keep = real if cut is None else real[:cut]
    for s, e in keep:
        text += s
        if e is not None:
            events.append(e)
    if cut is not None:
        events.append(("bad",))
    if cut == 0:
        events = [("bad",)]
    return text, events


def json_of_tree(t):
    lab = t[0]
    if lab == "null":
        return None
    if lab.startswith("s:"):
        return lab[2:]
    if lab == "[]":
        return [json_of_tree(k) for k in t[1]]
    if lab == "{}":
        out = {}
        for k in t[1]:
            v = json_of_tree(k[1][0])
            if v is not None:
                out[k[0][2:]] = v
        return out
    raise ValueError(lab)


# ------------------------------------------------------------------ values of the pool
def S(s):
    return ["str", s]


def O(cid, **kw):
    d = ALL[cid]
    fs = full_fields(d)
    items = []
    for f in fs:
        v = kw.pop(f["name"], None)
        if v is None:
            items.append([])
        elif f["list"]:
            items.append(list(v))
        else:
            items.append([v])
    assert not kw, kw
    return ["obj", cid, items]


def leaf(x="1", k=None):
    return O(1, x=S(x), k=S(k) if k else None)


VALUES = {
    "PA": O(2, leaf=leaf("1", "k1"), items=[leaf("2"), leaf("3")], t=S("ta")),
    "PB": O(3, leaf=leaf("1"), t=S("tb")),
    "PC": O(5, mid=O(4, leaf=leaf("5"), w=S("w")), alien=leaf("9")),
    "Leaf": leaf("7", "kk"),
    "Mid": O(4, leaf=leaf("6"), w=S("mw")),
    "Holder": O(9, item=O(7, b=S("b1"), d=S("d1")), items=[O(6, b=S("b2")), O(8, b=S("b3"), e=S("e3"))]),
    "HolderBase": O(9, item=O(6, b=S("b0"))),
    "Wild": O(10, any=[leaf("w1"), ["any", "{urn:z}g", "txt"], ["der", "{urn:w}dd", None, O(7, b=S("wb"), d=S("wd"))]]),
    "WildO": O(11, one=leaf("o1"), t=S("to")),
    "WildT": O(17, tany=[O(13, y=S("ty")), leaf("t1")]),
    "WildMid": O(25, head=S("h"), body=[["any", "{urn:z}x", "1"], ["any", "y", "2"]], foot=S("f")),
    "Own": O(12, oleaf=O(13, y=S("y1")), n=S("n1")),
    "Broken": ["obj", 14, []],
    "Tgt": O(15, z=S("z1")),
    "Dep": O(16, pleaf=leaf("p1")),
    "PAempty": O(2, t=S("only")),
    # values of classes that exist only after an EDefine
    "Late": O(20, x=S("l1")),
    "HolderLate": O(9, item=O(21, b=S("lb"), z2=S("lz"))),
    "Leaf2": O(22, x=S("n1"), q2=S("n2")),
    "Own2": O(23, oleaf=O(13, y=S("y2"))),
}
NEEDS = {"Late": [20], "HolderLate": [21], "Leaf2": [22], "Own2": [23]}


def build_ops(ck, fresh_ser, fresh_enc):
    """The operation table.  fresh_ser / fresh_enc: name -> canonical result of
    serializing / encoding VALUES[name] with fresh instances (pass 1)."""
    ops = []

    def add(tag, needs=(), **op):
        op["tag"] = tag
        op["needs"] = list(needs)
        ops.append(op)

    for n, v in VALUES.items():
        add(f"ser:{n}", NEEDS.get(n, ()), kind="ser", value=v)
    for n in ("Leaf", "PA", "Own", "Holder", "Mid", "Tgt", "Late", "Dep"):
        add(f"jser:{n}", NEEDS.get(n, ()), kind="jser" if n != "Own" else "enc", value=VALUES[n])
    docs = {}
    for n, r in fresh_ser.items():
        if "ok" in r:
            docs[n] = doc_of_tree(r["ok"])
    root_class = {n: VALUES[n][1] for n in VALUES}
    for n, d in docs.items():
        text, ev = render_doc(d)
        add(f"parse:{n}", NEEDS.get(n, ()), kind="parse", doc=text, events=ev, clazz=root_class[n])
        if n in ("PA", "Own", "Late", "Holder", "Leaf", "Tgt", "Leaf2", "Wild"):
            add(f"parse-auto:{n}", (), kind="parse", handler="native", doc=text, events=ev, clazz=None)
    # failing documents
    text, ev = render_doc(docs["PA"])
    add("parse:PA-as-PB", (), kind="parse", doc=text, events=ev, clazz=3)
    for cut in (0, 2, 5):
        text, ev = render_doc(docs["PA"], cut=cut)
        add(f"parse:PA-cut{cut}", (), kind="parse", handler="native", doc=text, events=ev, clazz=2)
    text, ev = render_doc(docs["Holder"], cut=3)
    add("parse:Holder-cut3", (), kind="parse", handler="native", doc=text, events=ev, clazz=9)
    bad = doc_of_tree(fresh_ser["PB"]["ok"])
    bad["kids"].append({"q": "{urn:b}nosuch", "attrs": [], "xsi": None, "text": "u", "kids": []})
    text, ev = render_doc(bad)
    add("parse:PB-unknown", (), kind="parse", handler="native", doc=text, events=ev, clazz=3)
    bad = doc_of_tree(fresh_ser["PB"]["ok"])
    bad["kids"][0]["kids"][0]["q"] = "{urn:a}x"        # the document a poisoned context writes
    text, ev = render_doc(bad)
    add("parse:PB-leaf-in-a", (), kind="parse", doc=text, events=ev, clazz=3)
    add("parse:nobody", (), kind="parse", doc="<p0:Nobody xmlns:p0=\"urn:none\"></p0:Nobody>",
        events=[("ns", "p0", "urn:none"), ("start", "{urn:none}Nobody", [], None), ("end", "{urn:none}Nobody", None)],
        clazz=None)
    add("parse:broken-auto", (), kind="parse", doc="<p0:Broken xmlns:p0=\"urn:k\"></p0:Broken>",
        events=[("ns", "p0", "urn:k"), ("start", "{urn:k}Broken", [], None), ("end", "{urn:k}Broken", None)], clazz=None)
    hl = {"q": "{urn:h}Holder", "attrs": [], "xsi": None, "text": None, "kids": [
        {"q": "{urn:h}item", "attrs": [], "xsi": "{urn:h}LateDer", "text": None, "kids": [
            {"q": "{urn:h}b", "attrs": [], "xsi": None, "text": "xb", "kids": []}]}]}
    text, ev = render_doc(hl)
    add("parse:Holder-xsi-LateDer", (), kind="parse", doc=text, events=ev, clazz=9)
    # wildcard namespace matching: same local name in different namespaces against one var
    def wdoc(root, child):
        return {"q": root, "attrs": [], "xsi": None, "text": None,
                "kids": [{"q": child, "attrs": [], "xsi": None, "text": "g", "kids": []}]}
    for tag, root, child, cz in (("WildO-other", "{urn:a}WildO", "{urn:z}g", 11), ("WildO-same", "{urn:a}WildO", "{urn:a}g", 11),
                                 ("WildO-local", "{urn:a}WildO", "g", 11),
                                 ("WildT-a", "{urn:a}WildT", "{urn:a}g", 17), ("WildT-z", "{urn:a}WildT", "{urn:z}g", 17)):
        text, ev = render_doc(wdoc(root, child))
        add(f"parse:{tag}", (), kind="parse", doc=text, events=ev, clazz=cz)
    # dictionaries
    for n, r in fresh_enc.items():
        if "ok" not in r:
            continue
        data = json_of_tree(r["ok"])
        kind = "jparse" if n in ("PA", "Leaf") else "dec"
        add(f"{kind}:{n}", NEEDS.get(n, ()), kind=kind, data=data, clazz=root_class[n])
        if n in ("PA", "Own", "Late", "Tgt"):
            add(f"{kind}-auto:{n}", (), kind=kind, data=data, clazz=None)
    add("dec:unknown-key", (), kind="dec", data={"x": "1", "nosuch": "2"}, clazz=1)
    add("dec-auto:x", (), kind="dec", data={"x": "1"}, clazz=None)
    add("dec-auto:nomatch", (), kind="dec", data={"nosuchfield": "1"}, clazz=None)
    add("dec:Holder-der", (), kind="dec", data={"item": {"b": "q", "d": "r"}}, clazz=9)
    # opaque operations: binding features outside the modelled fragment
    U = 'xmlns="urn:u"'
    for tag, kind, clazz, doc in (
            ("UHolder-alpha", "oparse", 32, f"<UHolder {U}><item><ax>1</ax></item><uleaf><x>u</x></uleaf></UHolder>"),
            ("UHolder-beta", "oparse", 32, f"<UHolder {U}><item><by>2</by></item></UHolder>"),
            ("UHolder-fail", "oparse", 32, f"<UHolder {U}><item><ax>abc</ax></item></UHolder>"),
            ("UHolder-alpha", "oround", 32, f"<UHolder {U}><item><ax>1</ax></item><uleaf><x>u</x></uleaf></UHolder>"),
            ("Num-abc", "oparse", 33, "<Num><n>abc</n></Num>"),
            ("Num-7", "oparse", 33, '<Num fl="1.5"><n>7</n></Num>'),
            ("Num-7", "oround", 33, '<Num fl="1.5"><n>7</n></Num>'),
            ("Num-abc", "ojparse", 33, '{"n": "abc"}'),
            ("Num-7", "ojround", 33, '{"n": 7, "fl": 1.5}'),
            ("Tok", "oparse", 34, f"<Tok {U}><toks>1 2 3</toks><tleaf><x>t</x></tleaf></Tok>"),
            ("Tok", "oround", 34, f"<Tok {U}><toks>1 2 3</toks><tleaf><x>t</x></tleaf></Tok>"),
            ("Tok-bad", "oparse", 34, f"<Tok {U}><toks>1 x 3</toks></Tok>"),
            ("Cmp", "oparse", 35, f"<Cmp {U}><ca>1</ca><cb>s</cb><cl><x>c</x></cl><ca>2</ca></Cmp>"),
            ("Cmp", "oround", 35, f"<Cmp {U}><ca>1</ca><cb>s</cb><cl><x>c</x></cl><ca>2</ca></Cmp>"),
            ("Nil", "oparse", 36, f'<Nil {U} xmlns:xsi="{XSI}"><nv xsi:nil="true"/><nleaf><x>n</x></nleaf></Nil>'),
            ("Nil", "oround", 36, f'<Nil {U} xmlns:xsi="{XSI}"><nv xsi:nil="true"/><nleaf><x>n</x></nleaf></Nil>'),
            ("Leaf-in-u", "oparse", 1, f"<Leaf {U}><x>q</x></Leaf>")):
        add(f"{kind}:{tag}", (), kind=kind, doc=doc, clazz=clazz)
    # compound fields: str values that do / do not convert to the earlier choice, and values of the choice type
    for cid, (cname, prims) in COMPOUND.items():
        t0 = prims[0]
        tag0, conv, val = PRIMS[t0]
        lists = {"conv": [["s", conv]], "non": [["s", "abc"]], "non-conv": [["s", "abc"], ["s", conv]],
                 "conv-non": [["s", conv], ["s", "abc"]], "typed": [[tag0, val], ["s", "zz"]]}
        if len(prims) > 1:
            lists["conv2"] = [["s", PRIMS[prims[1]][1]], ["s", conv]]
        for ln, items in lists.items():
            add(f"oser:{cname}:{ln}", (), kind="oser", clazz=cid, fields=[["items", items]])
            data = {"items": [v if t != "d" else v for t, v in items]}
            if ln != "typed" or tag0 != "d":
                add(f"odecs:{cname}:{ln}", (), kind="odecs", clazz=cid, data=data)
        add(f"odec:{cname}:non-conv", (), kind="odec", clazz=cid, data={"items": ["abc", conv]})
        add(f"ojser:{cname}:conv-non", (), kind="ojser", clazz=cid, fields=[["items", lists["conv-non"]]])
    # prefixes: one document declares a prefix, another uses it undeclared (QName value, xsi:type), through ONE parser
    for hd in ("native", "lxml"):
        kw = {"handler": "native"} if hd == "native" else {}
        add(f"oparse:RefBox-decl:{hd}", (), kind="oparse", clazz=26, doc='<RefBox xmlns:p="urn:first"><ref>p:a</ref></RefBox>', **kw)
        add(f"oparse:RefBox-undecl:{hd}", (), kind="oparse", clazz=26, doc="<RefBox><ref>p:a</ref><rleaf><x>1</x></rleaf></RefBox>", **kw)
        add(f"oparse:RefBox-other:{hd}", (), kind="oparse", clazz=26, doc='<RefBox xmlns:p="urn:second"><ref>p:b</ref></RefBox>', **kw)
        add(f"oparse:Holder-decl-p:{hd}", (), kind="oparse", clazz=9,
            doc=f'<h:Holder xmlns:h="urn:h" xmlns:p="urn:h2" xmlns:xsi="{XSI}"><h:item xsi:type="p:Der2"><h:b>1</h:b></h:item></h:Holder>', **kw)
        add(f"oparse:Holder-undecl-p:{hd}", (), kind="oparse", clazz=9,
            doc=f'<h:Holder xmlns:h="urn:h" xmlns:xsi="{XSI}"><h:item xsi:type="p:Der2"><h:b>1</h:b></h:item></h:Holder>', **kw)
        # text and tree sources (xml.etree for the native handler, lxml trees for the lxml handler) of a namespaced
        # class with QName values, through ONE parser (seed C14-r5m1: the recorder handed to iterwalk)
        add(f"oparse:NsRef-dflt:{hd}", (), kind="oparse", clazz=39, doc='<NsRef xmlns="urn:r" kind="plain"><ref>item</ref></NsRef>', **kw)
        add(f"oparse:NsRef-pfx:{hd}", (), kind="oparse", clazz=39,
            doc='<r:NsRef xmlns:r="urn:r" xmlns:ns0="urn:other" kind="ns0:k"><r:ref>ns0:item</r:ref></r:NsRef>', **kw)
        add(f"oparse:NsRef-cut:{hd}", (), kind="oparse", clazz=39, doc='<NsRef xmlns="urn:r"><oops>', **kw)
        add(f"oparse:NsRef-tree:{hd}", (), kind="oparse", clazz=39, source="tree",
            doc='<NsRef xmlns="urn:r" kind="plain"><ref>item</ref></NsRef>', **kw)
        add(f"oparse:NsRef-tree-ns0:{hd}", (), kind="oparse", clazz=39, source="tree",
            doc='<r:NsRef xmlns:r="urn:r" kind="ns0:k"><r:ref>ns0:item</r:ref></r:NsRef>', **kw)
        # one name as attribute and as child element of classes with attribute / element wildcards
        for cname, cid in (("Bag", 27), ("BagA", 28), ("BagE", 29)):
            add(f"oparse:{cname}-attr:{hd}", (), kind="oparse", clazz=cid, doc=f'<{cname} code="7"/>', **kw)
            add(f"oparse:{cname}-child:{hd}", (), kind="oparse", clazz=cid, doc=f"<{cname}><code>7</code></{cname}>", **kw)
            add(f"oparse:{cname}-both:{hd}", (), kind="oparse", clazz=cid, doc=f'<{cname} code="1" other="2"><other>3</other><code>4</code></{cname}>', **kw)
    # user subclasses of primitive types: values (Money(Decimal), MyInt(int), MyStr(str)) and a field typed Money
    add("oser:MoneyHolder:money", (), kind="oser", clazz=37, fields=[["amount", ["m", "1.50"]], ["count", ["mi", 5]],
                                                                      ["label", ["ms", "lbl"]]])
    add("ojser:MoneyHolder:money", (), kind="ojser", clazz=37, fields=[["amount", ["m", "2.25"]]])
    add("oser:MoneyHolder:plain", (), kind="oser", clazz=37, fields=[["count", ["i", 7]]])
    add("odecs:MoneyHolder", (), kind="odecs", clazz=37, data={"amount": "1.5", "count": "3"})
    add("oparse:MoneyHolder", (), kind="oparse", clazz=37, doc='<MoneyHolder label="l"><amount>1.5</amount><count>4</count></MoneyHolder>')
    add("oparse:MoneyTyped", (), kind="oparse", clazz=38, doc="<MoneyTyped><price>1.5</price></MoneyTyped>")
    add("odecs:MoneyTyped", (), kind="odecs", clazz=38, data={"price": "1.5"})
    add("build:38,None", (), kind="call", name="build", args=[38, None])
    add("odec:Num-abc", (), kind="odec", clazz=33, data={"n": "abc"})       # lenient decoder: a warning only
    add("odecs:Num-abc", (), kind="odecs", clazz=33, data={"n": "abc"})     # strict decoder: ParserError
    for c in (30, 32, 33, 34, 36, 19, 18):     # (35: a compound field is described only as far as its namespace goes)
        add(f"build:{c},urn:q", (), kind="call", name="build", args=[c, "urn:q"])
        add(f"build:{c},None", (), kind="call", name="build", args=[c, None])
    # two classes with one qualified name: xsi:type substitution and auto-location
    hx = {"q": "{urn:h}Holder", "attrs": [], "xsi": None, "text": None, "kids": [
        {"q": "{urn:h}item", "attrs": [], "xsi": "{urn:h}Ext", "text": None, "kids": [
            {"q": "{urn:h}b", "attrs": [], "xsi": None, "text": "xb", "kids": []},
            {"q": "{urn:h}ex", "attrs": [], "xsi": None, "text": "xe", "kids": []}]}]}
    text, ev = render_doc(hx)
    add("parse:Holder-xsi-Ext", (), kind="parse", doc=text, events=ev, clazz=9)
    add("find_type:{urn:h}Ext", (), kind="call", name="find_type", args=["{urn:h}Ext"])
    add("find_types:{urn:h}Ext", (), kind="call", name="find_types", args=["{urn:h}Ext"])
    add("find_subclass:Base,Ext", (), kind="call", name="find_subclass", args=[6, "{urn:h}Ext"])
    ex = {"q": "{urn:h}Ext", "attrs": [], "xsi": None, "text": None, "kids": [
        {"q": "{urn:h}b", "attrs": [], "xsi": None, "text": "xb", "kids": []}]}
    text, ev = render_doc(ex)
    add("parse-auto:Ext", (), kind="parse", handler="native", doc=text, events=ev, clazz=None)
    # the context's public methods called directly
    for q in ("Leaf", "{urn:late}Late", "{urn:h}Base", "{urn:h}LateDer", "{urn:k}Broken", "XmlParser", "{urn:t}Tgt",
              "{urn:o}Own", "{urn:none}Nobody"):
        add(f"find_type:{q}", (), kind="call", name="find_type", args=[q])
    add("find_types:Leaf", (), kind="call", name="find_types", args=["Leaf"])
    add("find_subclass:Base,Der2", (), kind="call", name="find_subclass", args=[6, "{urn:h2}Der2"])
    add("find_subclass:Der,LateDer", (), kind="call", name="find_subclass", args=[7, "{urn:h}LateDer"])
    add("find_subclass:Der,Base", (), kind="call", name="find_subclass", args=[7, "{urn:h}Base"])
    add("find_subclass:Der,Der2", (), kind="call", name="find_subclass", args=[7, "{urn:h2}Der2"])
    add("fetch:Der,xsi=Base", (), kind="call", name="fetch", args=[7, "urn:h", "{urn:h}Base"])
    add("fetch:Leaf,xsi=nosuch", (), kind="call", name="fetch", args=[1, None, "{urn:none}Nobody"])
    add("build:Leaf,urn:q", (), kind="call", name="build", args=[1, "urn:q"])
    add("build:Leaf,None", (), kind="call", name="build", args=[1, None])
    add("build:Broken", (), kind="call", name="build", args=[14, None])
    add("fetch:Base,xsi=Der2", (), kind="call", name="fetch", args=[6, "urn:h", "{urn:h2}Der2"])
    add("build_recursive:PA", (), kind="call", name="build_recursive", args=[2, None])
    add("build_recursive:Dep", (), kind="call", name="build_recursive", args=[16, None])
    add("by_fields:x", (), kind="call", name="find_type_by_fields", args=[["x"]])
    add("by_fields:y", (), kind="call", name="find_type_by_fields", args=[["y"]])
    add("names_match:Broken", (), kind="call", name="local_names_match", args=[["a"], 14])
    add("names_match:Leaf", (), kind="call", name="local_names_match", args=[["x"], 1])
    add("build_xsi_cache", (), kind="call", name="build_xsi_cache", args=[])
    add("reset", (), kind="call", name="reset", args=[])
    return ops


REDUCED = ["ser:PA", "ser:PB", "parse:PB", "jser:Leaf", "dec-auto:x", "parse-auto:Late", "parse:Holder-xsi-Ext",
           "find_type:Leaf", "find_type:{urn:k}Broken", "build_recursive:Dep", "parse:PA-cut5", "ser:Broken"]
MEDIUM = REDUCED + ["parse:PA-as-PB", "reset", "parse:WildO-other", "parse:WildO-same", "parse:WildT-a",
                    "parse:Holder-xsi-LateDer", "find_subclass:Der,LateDer", "dec:Holder-der", "jparse:PA",
                    "ser:PC", "parse:PC", "ser:Wild", "parse:Wild", "parse:Holder", "names_match:Broken",
                    "build_xsi_cache", "by_fields:x", "ser:Leaf", "parse:Leaf", "ser:Own", "parse-auto:Own",
                    "find_type:{urn:h}Ext", "find_subclass:Base,Ext", "parse-auto:Ext",
                    "oparse:UHolder-alpha", "oparse:UHolder-fail", "oround:UHolder-alpha", "oparse:Num-abc", "oparse:Num-7",
                    "oround:Cmp", "oparse:Nil"]
ENVS = [{"env": "define", "cid": 20, "bump": False}, {"env": "define", "cid": 22, "bump": False},
        {"env": "define", "cid": 21, "bump": True}]
CLOSED = ["ser:Own", "parse:Own", "parse-auto:Own", "jser:Own", "dec:Own", "ser:Broken", "build:Broken",
          "parse:nobody", "find_type:{urn:o}Own", "find_type:{urn:none}Nobody", "ser:Own2", "parse:Own2"]
OPAQUE = ("oparse", "oround", "ojparse", "ojround", "oser", "ojser", "odec", "odecs")


def valid(seq, ops):
    have = set()
    pre, count, version, seen_at = 0, 0, 0, []
    shrinking = any(st.get("env") == "unload" for st in seq)
    for st in seq:
        if "env" in st:
            if st["env"] == "define":
                if st["cid"] in have:
                    return False
                have.add(st["cid"])
                version += 1
                count += 1 if st["bump"] else 0
            elif st["env"] == "import":
                count += 1
            elif st["env"] == "preload":
                pre += st["n"]
                count += st["n"]
            elif st["env"] == "unload":
                if st["n"] > pre:
                    return False
                pre -= st["n"]
                count -= st["n"]
        else:
            if any(c not in have for c in ops[st["op"]]["needs"]):
                return False
            if shrinking:
                # histories with unloaded modules are handed to the model (whose world only grows) without the
                # unloads: that is the same history for the real code only as long as len(sys.modules) never
                # RETURNS to a value an earlier call saw under a different class set (that coincidence is the open
                # finding stale-subclass-index in another guise and has its own witnesses)
                if any(c == count and v != version for c, v in seen_at):
                    return False
                seen_at.append((count, version))
    return True


def gen_sequences(ck, ops):
    r = ck.rng
    by_tag = {o["tag"]: i for i, o in enumerate(ops)}
    alpha = [{"op": by_tag[t]} for t in REDUCED] + ENVS
    seqs = []
    kinds = {"exhaustive": 0, "witness": 0, "closed": 0, "random": 0}
    maxlen = ck.n(3, 4)
    medium = [{"op": by_tag[t]} for t in MEDIUM] + ENVS
    everything = [{"op": i} for i in range(len(ops))] + ENVS
    for n in range(1, maxlen + 1):
        # length 1: every operation; length 2: all ordered pairs over a medium alphabet (thorough: over
        # everything); length 3: a reduced alphabet; length 4 (thorough): a smaller one still
        alpha3 = alpha + [{"op": by_tag[t]} for t in ("parse:PA-as-PB", "reset", "parse:Holder-xsi-Ext",
                                                        "find_type:{urn:h}Ext", "oparse:UHolder-fail", "oparse:Num-abc",
                                                        "parse:WildO-other", "parse:WildO-same")]
        alpha_x = {1: everything, 2: medium if ck.quick else everything, 3: alpha if ck.quick else alpha3,
                   4: alpha[:8] + ENVS[:2]}[n]
        for tup in itertools.product(alpha_x, repeat=n):
            if "env" in tup[-1]:
                continue        # a trailing environment change has nothing to compare
            if valid(tup, ops):
                seqs.append(list(tup))
                kinds["exhaustive"] += 1
    # compound fields: all ordered pairs of the operations of one class, and longer interleavings
    kinds["compound"] = 0
    for cid, (cname, _) in COMPOUND.items():
        mine = [i for i, o in enumerate(ops) if o.get("clazz") == cid and o["kind"] in ("oser", "ojser", "odec", "odecs")]
        pairs = [(a, b) for a in mine for b in mine if a != b]
        if ck.quick and len(pairs) > 60:
            pairs = r.sample(pairs, 60)
        for a, b in pairs:
            seqs.append([{"op": a}, {"op": b}])
            kinds["compound"] += 1
        for _ in range(ck.n(3, 40)):
            seqs.append([{"op": r.choice(mine)} for _ in range(r.randint(3, 7))])
            kinds["compound"] += 1
    # prefix / wildcard-lookup groups: all ordered pairs and triples inside a group
    kinds["groups"] = 0
    for key in ("RefBox", "Holder-decl-p", "Bag-", "BagA-", "BagE-", "NsRef-"):
        for hd in ("native", "lxml"):
            mine = [i for i, o in enumerate(ops) if o["tag"].startswith("oparse:") and o["tag"].endswith(":" + hd)
                    and (key in o["tag"] or (key == "Holder-decl-p" and "Holder-undecl-p" in o["tag"]))]
            for n in (2, 3):
                for tup in itertools.product(mine, repeat=n):
                    if len(set(tup)) > 1:
                        seqs.append([{"op": i} for i in tup])
                        kinds["groups"] += 1
    # module-count DECREASE: helper modules that were in sys.modules when the context built its index are
    # unloaded and a class is defined in a new module (plugin unload / test cleanup / reload), so that
    # len(sys.modules) ends below the remembered count and is never equal to it; the index must be rebuilt
    kinds["unload"] = 0
    indexers = ["find_type:Leaf", "parse-auto:PA", "dec-auto:x", "build_xsi_cache", "parse:Holder-xsi-Ext",
                "parse:nobody", "find_type:{urn:late}Late", "jparse-auto:PA", "by_fields:y"]
    lookers = {20: ["find_type:{urn:late}Late", "parse-auto:Late", "dec-auto:Late", "ser:Late"],
               21: ["parse:Holder-xsi-LateDer", "find_subclass:Der,LateDer", "find_type:{urn:h}LateDer"],
               22: ["find_types:Leaf", "find_type:Leaf", "parse-auto:Leaf2", "dec-auto:x"],
               23: ["parse:Own2", "ser:Own2", "by_fields:y", "parse-auto:Own"]}
    indexers = [t for t in indexers if t in by_tag]
    shapes = []
    for cid, ls in lookers.items():
        for b in [t for t in ls if t in by_tag]:
            for a in indexers:
                for k, j in ((2, 2), (3, 3), (4, 2)):
                    shapes.append((a, cid, b, k, j))
    if ck.quick and len(shapes) > 150:
        shapes = r.sample(shapes, 150)
    for a, cid, b, k, j in shapes:
        dfn = {"env": "define", "cid": cid, "bump": True}
        mid = [{"env": "unload", "n": j}, dfn] if r.random() < 0.5 else [dfn, {"env": "unload", "n": j}]
        seq = [{"env": "preload", "n": k}, {"op": by_tag[a]}] + mid + [{"op": by_tag[b]}]
        if valid(seq, ops):
            seqs.append(seq)
            kinds["unload"] += 1
    pool_u = [by_tag[t] for t in MEDIUM + [x for ls in lookers.values() for x in ls] if t in by_tag]
    for _ in range(ck.n(60, 600)):
        seq, have, pre = [], set(), 0
        for _ in range(r.randint(4, 14)):
            x = r.random()
            if x < 0.15:
                n = r.randint(1, 4)
                seq.append({"env": "preload", "n": n})
                pre += n
            elif x < 0.3 and pre:
                n = r.randint(1, pre)
                seq.append({"env": "unload", "n": n})
                pre -= n
            elif x < 0.42:
                cand = [d["cid"] for d in DYNAMIC if d["cid"] not in have]
                if cand:
                    c = r.choice(cand)
                    have.add(c)
                    seq.append({"env": "define", "cid": c, "bump": r.random() < 0.8})
            elif x < 0.46:
                seq.append({"env": "import"})
            else:
                i = r.choice(pool_u)
                if all(c in have for c in ops[i]["needs"]):
                    seq.append({"op": i})
        while seq and "env" in seq[-1]:
            seq.pop()
        # keep the longest valid prefix that still contains an unload
        while seq and not valid(seq, ops):
            seq.pop()
            while seq and "env" in seq[-1]:
                seq.pop()
        if seq and any(st.get("env") == "unload" for st in seq):
            seqs.append(seq)
            kinds["unload"] += 1
    # the witnesses of the refutation lemmas (coq/Properties/C14.v)
    W = [["ser:PA", "ser:PB", "parse:PB"],
         ["find_type:{urn:late}Late", ENVS[0], "find_type:{urn:late}Late", "parse-auto:Late"],
         ["find_type:{urn:k}Broken", "dec-auto:x", "find_type:{urn:k}Broken", "parse:broken-auto"],
         ["ser:Dep", "build_recursive:Dep"],
         ["build_xsi_cache", "names_match:Broken", "names_match:Broken"],
         # regressions of the harness itself: an opaque operation that diverges on the shared instance
         ["build:30,None", "oparse:UHolder-alpha", "parse:Mid"],
         ["oparse:UHolder-fail", "oparse:Num-abc", "oparse:UHolder-alpha"],
         ["parse:Holder-xsi-Ext", "find_type:{urn:h}Ext", "parse-auto:Ext"]]
    for wseq in W:
        seqs.append([x if isinstance(x, dict) else {"op": by_tag[x]} for x in wseq])
        kinds["witness"] += 1
    # histories inside the static guard: only classes that declare their namespace
    closed = [by_tag[t] for t in CLOSED]
    for _ in range(ck.n(40, 400)):
        n = r.randint(2, 12)
        seq, have = [], False
        for _ in range(n):
            k = r.random()
            if k < 0.1 and not have:
                seq.append({"env": "define", "cid": 23, "bump": True})
                have = True
            elif k < 0.15:
                seq.append({"env": "import"})
            else:
                i = r.choice(closed)
                if ops[i]["needs"] and not have:
                    continue
                seq.append({"op": i})
        if seq and "op" in seq[-1]:
            seqs.append(seq)
            kinds["closed"] += 1
    # random long histories over everything
    for _ in range(ck.n(60, 1500)):
        n = r.randint(4, 40)
        seq, have = [], set()
        for _ in range(n):
            k = r.random()
            if k < 0.08:
                cand = [d["cid"] for d in DYNAMIC if d["cid"] not in have]
                if cand:
                    c = r.choice(cand)
                    have.add(c)
                    seq.append({"env": "define", "cid": c, "bump": r.random() < 0.5})
                    continue
            if k < 0.11:
                seq.append({"env": "import"})
                continue
            i = r.randrange(len(ops))
            if any(c not in have for c in ops[i]["needs"]):
                continue
            seq.append({"op": i})
        while seq and "env" in seq[-1]:
            seq.pop()
        if seq:
            seqs.append(seq)
            kinds["random"] += 1
    return seqs, kinds


# ------------------------------------------------------------------ Coq evaluation of summaries
_NATLIST = re.compile(r"=\s*(\[[^\]]*\])\s*:\s*list nat", re.S)


def coq_summaries(tag, defs, cases, shard=250, timeout=1500, fn="case_summary", ctype="case"):
    """case_summary of every case (Model/ContextCorr.v).  The shared definitions (world,
    operations, interned results and access logs) are compiled once into a module; the
    shards only import it and evaluate, in parallel."""
    os.makedirs(common.CORR, exist_ok=True)
    dname = f"cases_{tag}_defs"
    dpath = os.path.join(common.CORR, dname + ".v")
    with open(dpath, "w") as f:
        f.write("\n".join([IMPORTS, "From Coq Require Import NArith List Bool.", "Import ListNotations.",
                           "Open Scope N_scope.", defs]) + "\n")
    rc, so, se = common._coqc(dpath, timeout)
    if rc != 0:
        raise common.BuildError(os.path.relpath(dpath, common.COQ), so + se)
    shards = [cases[i:i + shard] for i in range(0, len(cases), shard)] or [[]]
    paths = []
    for k, sh in enumerate(shards):
        path = os.path.join(common.CORR, f"cases_{tag}_{k}.v")
        with open(path, "w") as f:
            f.write("\n".join([IMPORTS, f"From XV Require Import Corr.{dname}.",
                               "From Coq Require Import NArith List Bool.", "Import ListNotations.",
                               "Open Scope N_scope.",
                               f"Definition the_cases : list {ctype} := [", ";\n".join(sh), "].",
                               f"Eval vm_compute in ({'flat_map' if fn == 'case_diag' else 'map'} {fn} the_cases)."]) + "\n")
        paths.append(path)
    # every coqc holds the shared definitions (up to ~1.3 GB in the thorough tier): fewer at a time when there are many
    with cf.ThreadPoolExecutor(max_workers=16 if len(paths) <= 48 else 6) as ex:
        results = list(ex.map(lambda p: common._coqc(p, timeout), paths))
    out = []
    for k, (rc, so, se) in enumerate(results):
        if rc != 0:
            raise common.BuildError(os.path.relpath(paths[k], common.COQ), so + se)
        m = _NATLIST.search(so)
        if not m:
            raise common.BuildError(os.path.relpath(paths[k], common.COQ), "unparsable output: " + so[-500:])
        vals = [int(x) for x in re.findall(r"\d+", m.group(1))]
        if fn != "case_diag" and len(vals) != len(shards[k]):
            raise common.BuildError(os.path.relpath(paths[k], common.COQ), "wrong number of summaries")
        out += vals
    for p in paths + [dpath]:
        for ext in (".v", ".vo", ".vok", ".vos", ".glob"):
            try:
                os.remove(p[:-2] + ext)
            except FileNotFoundError:
                pass
        try:
            os.remove(os.path.join(os.path.dirname(p), "." + os.path.basename(p)[:-2] + ".aux"))
        except FileNotFoundError:
            pass
    return out


class Interner:
    def __init__(self, prefix, ty):
        self.prefix, self.ty, self.ids, self.defs = prefix, ty, {}, []

    def __call__(self, term):
        if term not in self.ids:
            name = f"{self.prefix}{len(self.ids)}"
            self.ids[term] = name
            self.defs.append(f"Definition {name} : {self.ty} := {term}.")
        return self.ids[term]


def impl_payload(ops, seqs):
    strip = [{k: v for k, v in o.items() if k not in ("events", "tag", "needs")} for o in ops]
    dyn = []
    for d in DYNAMIC:
        dyn.append(d)
    return {"static": STATIC, "dynamic": dyn, "ops": strip, "seqs": seqs}


def run_impl_parallel(ops, seqs, workers=8):
    """The sequences are independent of each other: run them in several
    implementation processes.  Every process reports the same world."""
    n = max(1, min(workers, len(seqs) // 50 or 1))
    chunks = [seqs[i::n] for i in range(n)]
    with cf.ThreadPoolExecutor(max_workers=n) as ex:
        outs = list(ex.map(lambda ch: run_impl("impl_c14.py", impl_payload(ops, ch), timeout=2400), chunks))
    first = outs[0]
    for o in outs[1:]:
        if o["order"] != first["order"] or o["ambient"] != first["ambient"] or o["modules0"] != first["modules0"]:
            raise RuntimeError("implementation processes disagree about the world")
    runs = [None] * len(seqs)
    for k, o in enumerate(outs):
        for j, r in enumerate(o["runs"]):
            runs[k + j * n] = r
    return {"order": first["order"], "ambient": first["ambient"], "modules0": first["modules0"], "runs": runs,
            "glob_warmup": first.get("glob_warmup")}


CLASSES = {32: "ns-cache-key", 64: "stale-subclass-index", 128: "pruned-index", 256: "build-recursive-skips-cached"}


def run(ck: Check):
    ck.level = "proof"
    obligations, discharged, axioms = standard_proof_step(ck, extra_targets=["Model/ContextCorr.vo"])

    # ---- pass 1: fresh serializations / encodings give the documents of the pool
    names = list(VALUES)
    p1_ops = [{"kind": "ser", "value": VALUES[n]} for n in names] + [{"kind": "enc", "value": VALUES[n]} for n in names]
    p1_seqs = []
    for i in range(len(p1_ops)):
        n = names[i % len(names)]
        pre = [{"env": "define", "cid": c, "bump": True} for c in NEEDS.get(n, ())]
        p1_seqs.append(pre + [{"op": i}])
    p1 = run_impl("impl_c14.py", {"static": STATIC, "dynamic": DYNAMIC, "ops": p1_ops, "seqs": p1_seqs})
    fresh_ser = {n: p1["runs"][i][-1]["fresh"] for i, n in enumerate(names)}
    fresh_enc = {n: p1["runs"][len(names) + i][-1]["fresh"] for i, n in enumerate(names)
                 if n in ("PA", "Leaf", "Own", "Mid", "Tgt", "Late", "PB")}
    t_p1 = time.time()
    ops = build_ops(ck, fresh_ser, fresh_enc)
    seqs, kinds = gen_sequences(ck, ops)
    if getattr(ck, "replay_file", None):
        # ./check C14 --replay <file>: only the sequence of that replay (operations by tag)
        import json
        by_tag = {o["tag"]: i for i, o in enumerate(ops)}
        rp = json.load(open(ck.replay_file))["replay"]["sequence"]
        seqs = [[st if "env" in st else {"op": by_tag[st["op"]]} for st in rp]]
        kinds = {"replay": 1}

    # ---- pass 2: the sequences on the real instances
    res = run_impl_parallel(ops, seqs)
    t_p2 = time.time()
    if res.get("glob_warmup"):
        ck.failure("process-global-state-changed", "running every operation once on throw-away instances changed process-wide "
                   "library state (shared by used and fresh instances alike): " + res["glob_warmup"], {"change": res["glob_warmup"]})
    order, ambient = res["order"], {a["cid"]: a for a in res["ambient"]}

    # ---- the world and the cases as Gallina terms
    classes = []
    for c in order:
        classes.append(c_class(ALL[c]) if c in ALL else c_ambient(ambient[c]))
    defs = [f"Definition W0 : world := mkW {clist(classes, str, 'cdesc')} {res['modules0']}%N."]
    for d in DYNAMIC:
        defs.append(f"Definition cd_{d['cid']} : cdesc := {c_class(d)}.")
    for i, o in enumerate(ops):
        if o["kind"] not in OPAQUE:
            defs.append(f"Definition op_{i} : op := {c_op(o)}.")
    rint, tint = Interner("r_", "res"), Interner("t_", "list otev")

    def build_cases(seqs_, runs_):
        cases_, calls_, unexpected = [], 0, 0
        for seq, run_ in zip(seqs_, runs_):
            steps = []
            for st, out in zip(seq, run_):
                if "env" in st:
                    if st["env"] == "define":
                        steps.append(f"StEnv (EDefine cd_{st['cid']} {cbool(st['bump'])})")
                    elif st["env"] == "preload":
                        steps += ["StEnv EImport"] * st["n"]
                    elif st["env"] == "unload":
                        # the world of the model only grows (Model/Context.v: env_step): an unload is no step of
                        # the model.  The real code may use len(sys.modules) only to notice THAT modules changed;
                        # `valid` keeps the count from returning to a remembered value, so the history without the
                        # unloads is the same history for it, and the model's answers are the expected ones
                        if out["mod"][1] != out["mod"][0] - st["n"]:
                            raise RuntimeError("unload step did not lower len(sys.modules) as described")
                    else:
                        steps.append("StEnv EImport")
                    continue
                calls_ += 1
                kind = ops[st["op"]]["kind"]
                if out.get("inst") and not any(v[0] == "instance-attribute-changed" for v in ck.violations):
                    ck.failure("instance-attribute-changed",
                               f"operation {ops[st['op']]['tag']} left a configuration object / attribute of a shared parser, "
                               f"serializer or decoder changed: {out['inst']}",
                               {"sequence": [ops[x["op"]]["tag"] if "op" in x else x for x in seq], "change": out["inst"]})
                if out.get("glob") and not any(v[0] == "process-global-state-changed" for v in ck.violations):
                    # process-wide library state is shared by used and fresh instances alike: an operation that
                    # changes it makes later results depend on the history although shared == fresh
                    ck.failure("process-global-state-changed",
                               f"operation {ops[st['op']]['tag']} changed process-wide library state: {out['glob']}",
                               {"sequence": [ops[x["op"]]["tag"] if "op" in x else x for x in seq], "change": out["glob"]})
                for side in ("ts", "tf"):
                    if kind in OPAQUE and any(e[0] == "m" for e in out[side]):
                        raise RuntimeError(f"opaque operation {ops[st['op']]['tag']} calls {out[side]}: not replayable")
                    out[side] = [e for e in out[side] if e[0] != "m"]
                if kind in OPAQUE:
                    steps.append(f"StOpq {rint(c_res(out['shared']))} {rint(c_res(out['fresh']))} "
                                 f"{tint(c_otrace(out['ts']))} {tint(c_otrace(out['tf']))}")
                    continue
                ordered = ops[st["op"]]["kind"] not in ("dec", "jparse")
                steps.append(f"StOp op_{st['op']} {cbool(ordered)} {rint(c_res(out['shared']))} {rint(c_res(out['fresh']))} "
                             f"{tint(c_otrace(out['ts']))} {tint(c_otrace(out['tf']))}")
                delta = out["mod"][1] - out["mod"][0]
                if delta:
                    # a lazy import moved len(sys.modules) during the call: tell the model
                    unexpected += 1
                    steps += ["StEnv EImport"] * max(delta, 0)
            cases_.append(f"(W0, {clist(steps, str, 'step')})")
        return cases_, calls_, unexpected

    def all_defs():
        return "\n".join(defs + rint.defs + tint.defs)

    cases, calls, unexpected_mod = build_cases(seqs, res["runs"])
    alldefs = all_defs()
    t_terms = time.time()
    summ = coq_summaries("c14", alldefs, cases)
    ck.notes.append(f"timing: pass1 done at {t_p1 - ck.t0:.0f}s, pass2 at {t_p2 - ck.t0:.0f}s, terms at {t_terms - ck.t0:.0f}s, "
                    f"coq at {time.time() - ck.t0:.0f}s; {len(rint.ids)} distinct results, {len(tint.ids)} distinct access logs")

    def shrink(seq, bad):
        """Delta debugging (ddmin over chunks, plus all prefixes): `bad(summary)` must
        stay true.  Returns (sequence, its run, its summary); bounded in rounds."""
        cur, cur_run, cur_sum = seq, None, None
        n = 2
        for _ in range(8):
            if len(cur) < 2:
                break
            chunk = max(1, len(cur) // n)
            cands = [cur[:k] for k in range(1, len(cur))]
            for start in range(0, len(cur), chunk):
                cands.append(cur[:start] + cur[start + chunk:])
            cands = [c for c in cands if c and "op" in c[-1] and valid(c, ops)]
            uniq = []
            for c in cands:
                if c not in uniq:
                    uniq.append(c)
            if not uniq:
                break
            r2 = run_impl("impl_c14.py", impl_payload(ops, uniq), timeout=600)
            cs, _, _ = build_cases(uniq, r2["runs"])
            sm = coq_summaries("c14s", all_defs(), cs)
            hit = sorted((len(uniq[k]), k) for k, v in enumerate(sm) if bad(v))
            if hit:
                k = hit[0][1]
                cur, cur_run, cur_sum = uniq[k], r2["runs"][k], sm[k]
                n = max(n - 1, 2)
            elif chunk == 1:
                break
            else:
                n = min(len(cur), n * 2)
        return cur, cur_run, cur_sum

    # ---- verdicts
    ck.cov["evaluations"] = calls
    stats = {"sequences": len(seqs), "calls": calls, "differing_sequences": 0, "guarded_sequences": 0,
             "guarded_and_differing": 0, "by_class": {v: 0 for v in CLASSES.values()}}
    distinct = set()

    def replay(i, seq=None, run_=None, sm=None):
        steps = []
        for st, out in zip(seq or seqs[i], run_ or res["runs"][i]):
            if "env" in st:
                steps.append(st)
            else:
                o = ops[st["op"]]
                steps.append({"op": o["tag"], "shared": out["shared"], "fresh": out["fresh"],
                              "accesses_shared": out["ts"], "accesses_fresh": out["tf"]})
        return {"sequence": steps, "summary": summ[i] if sm is None else sm}

    shrunk = set()

    def small_replay(i, cls, bad):
        """the replay of case i; the first one of a violation class is minimised"""
        if cls in shrunk or cls in ck.open_classes() or len(seqs[i]) <= 2:
            return replay(i)
        shrunk.add(cls)
        seq, run_, sm = shrink(seqs[i], bad)
        if run_ is None:
            return replay(i)
        rp = replay(i, seq, run_, sm)
        rp["shrunk_from"] = len(seqs[i])
        return rp

    order_idx = sorted(range(len(seqs)), key=lambda i: len(seqs[i]))   # smallest replay first
    for i in order_idx:
        s = summ[i]
        distinct.add(tuple(st.get("op", -1 - st.get("cid", 0)) for st in seqs[i]))
        tags = " ; ".join(ops[st["op"]]["tag"] if "op" in st else f"<{st['env']} {st.get('cid', st.get('n', ''))}>" for st in seqs[i])
        if not s & 1:
            if s & 8 and not s & 4:
                ck.failure("history-dependence-unexplained",
                           f"a call differs from fresh instances and no modelled defect deviates in it: {tags}",
                           small_replay(i, "history-dependence-unexplained", lambda v: v & 8 and not v & 4))
            if not any(v[0] == "corr-context" for v in ck.violations):
                rp = small_replay(i, "corr-context", lambda v: not v & 1)
                ck.failure("corr-context", "model and implementation disagree (result or logged context access) on: "
                           + " ; ".join(str(x.get("op", x)) for x in rp["sequence"]), rp)
            continue
        if s & 16:
            stats["guarded_sequences"] += 1
        if s & 8:
            stats["differing_sequences"] += 1
        if not s & 2:
            stats["guarded_and_differing"] += 1
            ck.failure("history-dependence-inside-guard",
                       f"a call differs from fresh instances although the history satisfies the guard of the theorem: {tags}",
                       small_replay(i, "history-dependence-inside-guard", lambda v: not v & 2))
            continue
        if not s & 4:
            ck.failure("history-dependence-unexplained",
                       f"a call differs from fresh instances and no modelled defect deviates in it: {tags}",
                       small_replay(i, "history-dependence-unexplained", lambda v: not v & 4))
            continue
        if s & 8:
            for bit, cls in CLASSES.items():
                if s & bit:
                    stats["by_class"][cls] += 1
                    ck.failure(cls, f"shared instances answer differently from fresh ones after: {tags}", replay(i))
    if unexpected_mod:
        ck.notes.append(f"{unexpected_mod} calls changed len(sys.modules) themselves (reported to the model as EImport)")
    if stats["guarded_sequences"] == 0 and not getattr(ck, "replay_file", None):
        ck.failure("harness-guard-vacuous", "no generated history satisfies the guard of the theorem", {"kinds": kinds})
    ck.cov["distinct_nontrivial"] = len(distinct)
    ck.cov["rule"] = ("operation sequences on shared XmlContext/XmlParser/XmlSerializer/JsonParser/JsonSerializer/"
                      "DictDecoder/DictEncoder instances vs fresh instances, call by call: bounded-exhaustive for "
                      f"length <= {ck.n(3, 4)} (length 1: all {len(ops)} operations; length 2: all ordered pairs over {len(MEDIUM)} "
                      f"operations; length 3: over {len(REDUCED)} operations; each alphabet + {len(ENVS)} class "
                      "definitions at run time), the witnesses of the refutation lemmas, random histories inside the "
                      "static guard, random histories up to length 40 over the whole pool; distinct = distinct "
                      "sequences; every one reaches the modelled context methods")
    ck.cov["input_distribution"] = dict(kinds, pool_classes=len(STATIC), runtime_classes=len(DYNAMIC),
                                        ambient_classes=len(ambient), operations=len(ops))
    ck.cov["sequence_stats"] = stats
    ck.cov["samples"] = [replay(i) for i in (order_idx[0], order_idx[len(order_idx) // 2], order_idx[-1])]
    return ck.finish(obligations=obligations, discharged=discharged,
                     checker_cmd="make -C coq Properties/C14.vo && coqc -Q coq XV coq/Properties/C14.v (Print Assumptions)",
                     trusted_base=TRUSTED_COMMON + [
                         "tools/gen_context.py (DataType codes, namespace tokens)",
                         "harness/impl_c14.py: class generation from the shared descriptions, canonicalisation of results "
                         "to labelled trees, the logging subclass of XmlContext (build / find_types)",
                         "ambient dataclasses of the interpreter are described by introspection",
                         "axioms: " + (", ".join(axioms) or "none (closed under the global context)")],
                     assumptions=["clients reach the context instance only through its public methods (scripts)",
                                  "len(sys.modules) > 0", "single inheritance among binding classes (checked at run time)",
                                  "exception messages are compared only where they are derived from the metadata"])
