"""C02 generators: random XML Schemas over the supported fragment, drawn from a hidden abstract
model, and schema-valid instance documents drawn from the same model.  All randomness comes
from the `rng` passed in.  The abstract model is plain dicts/lists (it goes into replay files).

Model
  {"files": [{"name", "tns": uri|None, "efd": bool, "afd": bool}],          file 0 is the entry
   "stypes": {name: {"file": i, "def": sdef}},
   "ctypes": {name: cdef},          cdef = {"name"?, "file", "mixed", "abstract", "base": name|None,
                                            "simple": tref|None, "particle": particle|None,
                                            "attrs": [ause], "agroups": [name], "anyattr": ns|None}
   "groups": {name: {"file", "particle"}}, "agroups": {name: {"file", "attrs"}}, "gattrs": {name: {"file", "type"}},
   "elements": {name: edecl},  "root": name, "features": [...]}
  tref     = ["b", builtin] | ["s", name] | ["c", name] | ["ac", cdef] | ["as", sdef]
  sdef     = {"k": "atom", "base": tref, "enum": [lexical...]|None, "facets": {...}}
           | {"k": "list", "item": tref} | {"k": "union", "members": [tref...]}
  edecl    = {"name", "type": tref, "nillable", "form": None|bool, "default", "fixed", "global", "abstract",
              "subst": head|None, "file"}
  particle = {"k": "el", "decl": edecl, "min", "max"} | {"k": "ref", "name", "min", "max"}
           | {"k": "seq"|"choice"|"all", "items": [...], "min", "max"} | {"k": "group", "name", "min", "max"}
           | {"k": "any", "ns": str, "pc": "lax"|"skip", "min", "max"}            max None = unbounded
  ause     = {"name", "type": tref, "use": "optional"|"required", "default", "fixed", "form": None|bool}
           | {"ref": name, "use", "default", "fixed"}
"""
import base64
import io
import re

from lxml import etree

XS = "http://www.w3.org/2001/XMLSchema"
XSI = "http://www.w3.org/2001/XMLSchema-instance"
XML_NS = "http://www.w3.org/XML/1998/namespace"

URIS = ["urn:t", "http://example.com/ns/a", "urn:x:y", "http://example.com/b"]
FOREIGN = ["urn:foreign", "http://other.example/z"]
EL_NAMES = ["a", "b", "c", "d", "e", "f", "g", "h", "item", "Title", "sub-item", "x.y", "n1", "Body", "para",
            "entry", "Tag", "post_id", "Origin", "k2", "note", "val", "data", "info", "name", "kind"]
AT_NAMES = ["id", "ref", "kind", "status", "created_at", "data-x", "x.y", "v1", "name", "n", "author", "mode",
            "Level", "tok", "lang", "unit", "a", "b"]
# names the library itself uses for the fields it invents (text field, mixed content, wildcards, compound fields,
# generic elements): a schema is free to use them for its own elements and attributes
HOSTILE_EL = ["value", "content", "any_element", "other_element", "choice", "choice_1", "type", "qname", "text", "tail",
              "children", "attributes", "any_attributes", "other_attributes", "foreign_element", "local_element", "Meta"]
HOSTILE_AT = ["value", "content", "any_attributes", "other_attributes", "foreign_attributes", "any_element", "choice",
              "type", "qname", "text", "tail", "children", "attributes", "nil"]
TYPE_NAMES = ["TA", "TB", "TC", "TD", "TE", "Base", "Derived", "ItemType", "Node", "Info", "Rec", "part-type"]
STYPE_NAMES = ["SA", "SB", "SC", "Kind", "Code", "Small", "Toks", "NumOrTok", "color-type"]
TEXTS = ["t", "hello world", "x<y", "a&b", "é", " lead", "trail ", "two  spaces", "1", "0", "true", "中文",
         "q\"uote'", "]]>", "line\nbreak", "tab\there", "-1.50", "None", "007", "1e3", "INF", "2001-01-01"]
TOKENS = ["draft", "published", "a-b", "c.d", "x", "yes", "no", "UPPER", "v_1", "t2", "on", "off", "n:1"]
NMTOKS = ["en", "x1", "a-b", "c.d", "1", "tok", "fr-CA", "_u", "v_2", "007"]

INT_RANGES = {
    "integer": (-10 ** 20, 10 ** 20), "int": (-2 ** 31, 2 ** 31 - 1), "long": (-2 ** 63, 2 ** 63 - 1),
    "short": (-2 ** 15, 2 ** 15 - 1), "byte": (-128, 127), "nonNegativeInteger": (0, 10 ** 20),
    "positiveInteger": (1, 10 ** 20), "nonPositiveInteger": (-10 ** 20, 0), "negativeInteger": (-10 ** 20, -1),
    "unsignedInt": (0, 2 ** 32 - 1), "unsignedLong": (0, 2 ** 64 - 1), "unsignedShort": (0, 2 ** 16 - 1),
    "unsignedByte": (0, 255),
}
# builtins the generator draws from (grouped by how their values are compared)
B_STRING = ["string"]
B_NORM = ["normalizedString"]
B_TOKEN = ["token", "NMTOKEN", "Name", "NCName", "language", "anyURI"]
B_INT = list(INT_RANGES)
B_OTHER = ["boolean", "decimal", "float", "double", "date", "dateTime", "time", "duration", "gYear", "gYearMonth",
           "gMonthDay", "gDay", "gMonth", "hexBinary", "base64Binary"]
BUILTINS = B_STRING + B_NORM + B_TOKEN + B_INT + B_OTHER
COMMON_BUILTINS = ["string", "int", "integer", "boolean", "decimal", "double", "date", "dateTime", "token", "float",
                   "time", "hexBinary", "base64Binary", "anyURI", "NMTOKEN", "long", "short", "unsignedByte",
                   "nonNegativeInteger", "positiveInteger", "duration", "gYear", "normalizedString", "language",
                   "byte", "gYearMonth", "Name", "NCName", "gMonthDay", "gDay", "gMonth", "unsignedInt"]
ENUMERABLE = ["string", "token", "NMTOKEN", "int", "integer", "decimal", "short", "language", "anyURI", "double",
              "date", "gYear", "duration"]


# ============================================================================ lexical values
def ws_wrap(rng, s, p=0.15):
    if rng.random() < p:
        return rng.choice([" ", "\n ", "\t", "  "]) + s + rng.choice([" ", "\n", "", " \t"])
    return s


def gen_int_lex(rng, lo, hi, vary=True):
    k = rng.random()
    if k < 0.15:
        v = rng.choice([lo, hi, 0 if lo <= 0 <= hi else lo, 1 if lo <= 1 <= hi else hi, -1 if lo <= -1 <= hi else hi])
    elif k < 0.7:
        v = rng.randint(max(lo, -1000), min(hi, 1000)) if lo <= 1000 and hi >= -1000 else rng.randint(lo, hi)
    else:
        v = rng.randint(lo, hi)
    s = str(abs(v))
    if vary and rng.random() < 0.2:
        s = "0" * rng.randint(1, 3) + s
    if v < 0:
        s = "-" + s
    elif vary and rng.random() < 0.12:
        s = "+" + s
    elif vary and v == 0 and rng.random() < 0.2 and lo < 0:
        s = "-" + s
    return s


def gen_decimal_lex(rng, vary=True, max_frac=6):
    ip = str(rng.choice([0, 1, 7, 12, 100, 99999, rng.randint(0, 10 ** 12)]))
    fp = rng.choice(["", "0", "5", "50", "25", "001", "125000", str(rng.randint(0, 999999))])[:max_frac]
    if vary and rng.random() < 0.15:
        ip = "00" + ip
    k = rng.random()
    if fp:
        s = ip + "." + fp
        if vary and ip.strip("0") == "" and k < 0.2:
            s = "." + fp
    else:
        s = ip + ("." if vary and k < 0.1 else "")
    sg = rng.random()
    return ("-" if sg < 0.3 else "+" if (vary and sg < 0.4) else "") + s


def gen_float_lex(rng, single=False, vary=True):
    k = rng.random()
    if k < 0.06:
        return rng.choice(["INF", "-INF", "NaN"]) + "\0"
    mant = rng.choice([0, 1, 5, 15, 25, 125, 3, rng.randint(0, 999999)])
    exp = rng.choice([0, 0, 0, -1, -2, 1, 2, 3, 5, -5, 10, -10] + ([] if single else [22, -22, 100, -100]))
    x = float(f"{mant}e{exp}")
    if rng.random() < 0.3:
        x = -x
    s = repr(x)
    if single and float(repr(x)) != x:
        s = repr(x)
    if not vary:
        return s
    v = rng.random()
    if v < 0.25:
        # an equal decimal in another shape: mantissa/exponent form of the same number
        m = f"{mant}" if rng.random() < 0.5 else f"{mant}.0"
        s = ("-" if x < 0 or (mant == 0 and s.startswith("-")) else "") + m + rng.choice(["e", "E"]) + rng.choice(["", "+"] if exp >= 0 else [""]) + str(exp)
    elif v < 0.35 and "e" not in s and "inf" not in s and "nan" not in s:
        s = s + "0"
    elif v < 0.42 and not s.startswith("-"):
        s = "+" + s
    return s


def gen_tz(rng):
    return rng.choice(["", "", "", "Z", "Z", "+05:30", "-08:00", "+14:00", "+00:00", "-00:00", "-03:15"])


def gen_date_parts(rng):
    y = rng.choice([2001, 1999, 2024, 1, 9999, 1970, 2000, 1600, rng.randint(1, 9999)])
    m = rng.randint(1, 12)
    dmax = 29 if (m == 2 and y % 4 == 0 and (y % 100 != 0 or y % 400 == 0)) else 28 if m == 2 else 30 if m in (4, 6, 9, 11) else 31
    d = rng.choice([1, dmax, rng.randint(1, dmax)])
    return y, m, d


def gen_time_lex(rng):
    h, mi, s = rng.choice([0, 12, 23, rng.randint(0, 23)]), rng.choice([0, 59, rng.randint(0, 59)]), rng.choice([0, 59, rng.randint(0, 59)])
    frac = rng.choice(["", "", "", ".5", ".500", ".123456", ".000001", ".25", ".123456789", ".120"])
    return f"{h:02d}:{mi:02d}:{s:02d}{frac}"


def gen_duration_lex(rng):
    return rng.choice(["P1Y", "P1Y2M3DT4H5M6.7S", "-P1D", "PT0S", "P2M", "PT36H", "P0Y0M0DT0H0M0S", "PT1.5S", "P10D",
                       "-P1Y1M", "PT90M", "P1DT12H"])


def gen_builtin(rng, b, vary=True):
    """A lexical form of builtin type b (white space added around collapsing types when vary)."""
    if b == "string":
        return rng.choice(TEXTS + ["", "  "] if vary == "exotic" else TEXTS)
    if b == "normalizedString":
        return rng.choice(["t", "hello world", " lead", "trail ", "two  spaces", "a\tb" if vary else "a b", "x<y", "é"])
    if b == "token":
        return ws_wrap(rng, rng.choice(TOKENS + ["hello world", "a b c"]), 0.15 if vary else 0)
    if b in INT_RANGES:
        return ws_wrap(rng, gen_int_lex(rng, *INT_RANGES[b], vary=vary), 0.1 if vary else 0)
    if b == "boolean":
        return ws_wrap(rng, rng.choice(["true", "false", "1", "0"] if vary else ["true", "false"]), 0.1 if vary else 0)
    if b == "decimal":
        return ws_wrap(rng, gen_decimal_lex(rng, vary), 0.1 if vary else 0)
    if b in ("float", "double"):
        v = gen_float_lex(rng, b == "float", vary)
        if v.endswith("\0"):
            return v[:-1]                                     # libxml2 refuses white space around INF / NaN
        return ws_wrap(rng, v, 0.1 if vary else 0)
    if b == "date":
        y, m, d = gen_date_parts(rng)
        return f"{y:04d}-{m:02d}-{d:02d}{gen_tz(rng)}"          # libxml2 does not collapse white space around dates
    if b == "dateTime":
        y, m, d = gen_date_parts(rng)
        return f"{y:04d}-{m:02d}-{d:02d}T{gen_time_lex(rng)}{gen_tz(rng)}"
    if b == "time":
        return gen_time_lex(rng) + gen_tz(rng)
    if b == "duration":
        return gen_duration_lex(rng)
    if b == "gYear":
        return f"{rng.choice([2001, 1999, 1, 9999, 12]):04d}" + rng.choice(["", "", "Z", "+05:30"])
    if b == "gYearMonth":
        return f"{rng.choice([2001, 1999, 1]):04d}-{rng.randint(1, 12):02d}" + rng.choice(["", "", "Z"])
    if b == "gMonthDay":
        return f"--{rng.randint(1, 12):02d}-{rng.randint(1, 28):02d}" + rng.choice(["", "", "Z"])
    if b == "gDay":
        return f"---{rng.randint(1, 31):02d}" + rng.choice(["", "", "Z", "-08:00"])
    if b == "gMonth":
        return f"--{rng.randint(1, 12):02d}" + rng.choice(["", "", "Z"])
    if b == "hexBinary":
        bs = bytes(rng.randrange(256) for _ in range(rng.choice([0, 1, 2, 5, 8] if vary == "exotic" else [1, 2, 5, 8])))
        h = bs.hex()
        return h.upper() if rng.random() < 0.6 or not vary else h
    if b == "base64Binary":
        bs = bytes(rng.randrange(256) for _ in range(rng.choice([0, 1, 2, 3, 5, 9] if vary == "exotic" else [1, 2, 3, 5, 9])))
        s = base64.b64encode(bs).decode()
        if vary and len(s) > 4 and rng.random() < 0.2:
            s = s[:4] + " " + s[4:]
        return s
    if b == "anyURI":
        return rng.choice(["http://x.example/y?z=1", "urn:a:b", "a/b", "#frag", "mailto:a@b.c", "http://x/%20y"])
    if b == "NMTOKEN":
        return ws_wrap(rng, rng.choice(NMTOKS), 0.1 if vary else 0)
    if b == "Name":
        return rng.choice(["a", "n:1", "_x", "a-b.c", "x1"])
    if b == "NCName":
        return rng.choice(["a", "_x", "a-b.c", "x1", "été"])
    if b == "language":
        return rng.choice(["en", "fr-CA", "de", "en-US", "x-klingon"])
    raise KeyError(b)


# ============================================================================ the schema generator
class SchemaGen:
    def __init__(self, rng, features):
        self.r = rng
        self.f = set(features)
        self.m = {"files": [], "stypes": {}, "ctypes": {}, "groups": {}, "agroups": {}, "gattrs": {}, "elements": {},
                  "root": None, "features": sorted(features)}
        self.el_pool = list(EL_NAMES) + list(HOSTILE_EL)
        rng.shuffle(self.el_pool)
        self.anon_seen = [[]]         # per nesting level of anonymous types: names of the anonymous-typed elements so far
        self.used_global = set()
        self.blocked = set()          # complex types the type under construction must not mention
        self.local_used = set()       # names of local element declarations

    def has(self, x):
        return x in self.f

    # ---------------------------------------------------------------- helpers
    def visible(self, f, comp_file):
        """May a component of file f refer to a component of file comp_file?"""
        return comp_file >= f

    def fresh(self, pool, taken):
        cands = [n for n in pool if n not in taken]
        if not cands:
            n = self.r.choice(pool) + str(len(taken))
            while n in taken:
                n += "x"
            return n
        return self.r.choice(cands)

    def pick_file(self):
        n = len(self.m["files"])
        return 0 if n == 1 or self.r.random() < 0.4 else self.r.randrange(n)

    # ---------------------------------------------------------------- simple types
    def simple_ref(self, f, depth=0, allow_named=True, atomic_only=False):
        r = self.r
        named = [n for n, s in self.m["stypes"].items() if self.visible(f, s["file"])
                 and (not atomic_only or self.is_atomic(["s", n]))]
        k = r.random()
        if allow_named and named and k < 0.3:
            return ["s", r.choice(named)]
        if self.has("simple") and depth < 2 and k < 0.45:
            return ["as", self.gen_sdef(f, depth + 1, atomic_only)]
        return ["b", r.choice(COMMON_BUILTINS[:12]) if r.random() < 0.6 else r.choice(COMMON_BUILTINS)]

    def is_atomic(self, t):
        d = self.sdef_of(t)
        if d is None:
            return True
        if d["k"] != "atom":
            return False
        return self.is_atomic(d["base"])

    def sdef_of(self, t):
        if t[0] == "b":
            return None
        if t[0] == "s":
            return self.m["stypes"][t[1]]["def"]
        return t[1]

    def prim_of(self, t):
        """builtin at the root of an atomic simple type"""
        while t[0] != "b":
            d = self.sdef_of(t)
            if d["k"] != "atom":
                return None
            t = d["base"]
        return t[1]

    def gen_sdef(self, f, depth=0, atomic_only=False):
        r = self.r
        k = r.random()
        if not atomic_only and k < 0.18:
            return {"k": "list", "item": self.simple_ref(f, 2, atomic_only=True)}
        if not atomic_only and k < 0.34:
            n = r.choice([2, 2, 3])
            members = []
            for _ in range(n):
                members.append(self.simple_ref(f, 2, atomic_only=True))
            return {"k": "union", "members": members}
        if k < 0.7:
            b = r.choice(ENUMERABLE if r.random() < 0.5 else ["string", "token", "NMTOKEN", "int"])
            vals, seen = [], set()
            for _ in range(r.choice([1, 2, 3, 4, 5])):
                v = (r.choice(TOKENS[:12] + ["hello world", "1a", "None", "a b"]) if b == "string"
                     else gen_builtin(r, b, vary=False))
                key = "".join(ch for ch in v.lower() if ch.isalnum()) if b in ("string", "token", "NMTOKEN", "language", "anyURI") else v
                if b == "token":
                    v = " ".join(v.split())
                if key not in seen and (v.strip() == v or b == "string"):
                    seen.add(key)
                    vals.append(v)
            return {"k": "atom", "base": ["b", b], "enum": vals, "facets": {}}
        # facets that do not change how a value is read
        b = r.choice(["string", "int", "decimal", "token", "integer", "positiveInteger", "NMTOKEN", "double", "date"])
        facets = {}
        if b in ("string", "token", "NMTOKEN"):
            facets = r.choice([{"maxLength": 40}, {"minLength": 0}, {"pattern": ".*"} if b != "string" else {"minLength": 0},
                               {"minLength": 0, "maxLength": 60}])
        elif b in ("int", "integer"):
            facets = r.choice([{"minInclusive": "-100000", "maxInclusive": "100000"}, {"minExclusive": "-100001"},
                               {"maxExclusive": "100001"}, {"totalDigits": 6}])
        elif b == "positiveInteger":
            facets = {"maxInclusive": "999999"}
        elif b == "decimal":
            facets = r.choice([{"fractionDigits": 6}, {"minInclusive": "-99999999999999.5"}, {"totalDigits": 19, "fractionDigits": 6}])
        named = [n for n, s in self.m["stypes"].items() if self.visible(f, s["file"]) and self.is_atomic(["s", n])
                 and self.sdef_of(["s", n]).get("enum") is None and not self.sdef_of(["s", n]).get("facets")]
        base = ["b", b]
        if named and r.random() < 0.2:
            base, facets = ["s", r.choice(named)], {}
        return {"k": "atom", "base": base, "enum": None, "facets": facets}

    def facet_ok(self, t, lex):
        """Does lexical value lex satisfy the facets along the derivation chain of t?  (conservative)"""
        from decimal import Decimal
        while t[0] != "b":
            d = self.sdef_of(t)
            if d["k"] != "atom":
                return True
            fc = d.get("facets") or {}
            prim = self.prim_of(t)
            s = lex.strip()
            try:
                if "maxLength" in fc and len(" ".join(lex.split()) if prim != "string" else lex) > fc["maxLength"]:
                    return False
                if prim in INT_RANGES or prim == "decimal":
                    v = Decimal(s)
                    if "minInclusive" in fc and v < Decimal(fc["minInclusive"]):
                        return False
                    if "maxInclusive" in fc and v > Decimal(fc["maxInclusive"]):
                        return False
                    if "minExclusive" in fc and v <= Decimal(fc["minExclusive"]):
                        return False
                    if "maxExclusive" in fc and v >= Decimal(fc["maxExclusive"]):
                        return False
                    tup = v.normalize().as_tuple()
                    digits = len(tup.digits) + max(tup.exponent, 0)
                    frac = max(-tup.exponent, 0) if v != 0 else 0
                    if "totalDigits" in fc and max(digits, frac) > fc["totalDigits"]:
                        return False
                    if "fractionDigits" in fc and frac > fc["fractionDigits"]:
                        return False
            except Exception:
                return False
            t = d["base"]
        return True

    def gen_value(self, t, vary=True, depth=0):
        """A lexical form valid for simple type t."""
        r = self.r
        d = self.sdef_of(t)
        if d is None:
            return gen_builtin(r, t[1], vary)
        if d["k"] == "list":
            n = (r.choice([0, 1, 2, 3]) if vary == "exotic" else r.choice([1, 2, 3])) if depth == 0 else 1
            items = []
            for _ in range(n):
                v = self.gen_value(d["item"], vary=False, depth=depth + 1)
                if v and v.split() == [v]:
                    items.append(v)
            sep = "  " if vary and r.random() < 0.15 else " "
            return sep.join(items)
        if d["k"] == "union":
            return self.gen_value(r.choice(d["members"]), vary, depth + 1)
        if d.get("enum"):
            v = r.choice(d["enum"])
            prim = self.prim_of(t)
            if vary and prim not in ("string", "normalizedString") and r.random() < 0.1:
                v = " " + v + " "
            return v
        for _ in range(30):
            v = self.gen_value(d["base"], vary, depth)
            if self.facet_ok(t, v):
                return v
        prim = self.prim_of(t)
        return "1" if prim in INT_RANGES or prim in ("decimal", "double") else "x"

    # ---------------------------------------------------------------- attributes
    def gen_ause(self, f, name, qualified_default):
        r = self.r
        t = self.simple_ref(f)
        a = {"name": name, "type": t, "use": "optional", "default": None, "fixed": None, "form": None}
        k = r.random()
        if k < 0.3:
            a["use"] = "required"
        elif k < 0.5:
            a["default"] = self.default_for(t)
        elif k < 0.6:
            a["fixed"] = self.fixed_for(t)
        if self.has("ns") and r.random() < 0.2:
            a["form"] = not qualified_default
        return a

    def default_for(self, t):
        """A default/fixed value: no surrounding white space, no characters that need care in an attribute."""
        for _ in range(20):
            v = self.gen_value(t, vary=False)
            if v != "" and v == v.strip() and "\n" not in v and "\t" not in v and "  " not in v and v not in ("NaN",) \
                    and not re.search(r"\d[eE][+-]?\d", v):      # libxml2 compares fixed doubles lexically (1e3 vs 1E3)
                return v
        return None

    FIXED_SAFE = {"string", "token", "NMTOKEN", "language", "boolean", "gYear", "date", "Name", "NCName", "anyURI"} | set(INT_RANGES)

    def fixed_for(self, t):
        """A fixed value: libxml2 compares fixed values of some types lexically (1e3 / 1E3, -00:00 / Z), so only
        types and forms that every processor writes back unchanged."""
        if self.prim_of(t) not in self.FIXED_SAFE:
            return None
        for _ in range(20):
            v = self.default_for(t)
            if v is not None and v != "" and not re.search(r"[Z+:]|^0\d|^-0", v) and v not in ("1", "0"):
                return v
        return None

    def gen_attrs(self, f, taken, n=None, text_field=False):
        r = self.r
        out = []
        n = r.choice([0, 0, 1, 1, 2, 3]) if n is None else n
        for i in range(n):
            name = self.fresh(HOSTILE_AT if r.random() < 0.3 else AT_NAMES, taken)
            if text_field and i == 0 and "value" not in taken and r.random() < 0.25:
                name = "value"          # next to the text field of a simple-content class, which the library calls value
            taken.add(name)
            gl = [g for g, a in self.m["gattrs"].items() if self.visible(f, a["file"]) and g not in taken]
            if gl and r.random() < 0.15:
                g = r.choice(gl)
                taken.add(g)
                out.append({"ref": g, "use": r.choice(["optional", "required"]), "default": None, "fixed": None})
            else:
                a = self.gen_ause(f, name, self.m["files"][f]["afd"])
                if a["default"] is None and a["fixed"] is None and a["use"] == "optional" and False:
                    pass
                out.append(a)
        return out

    # ---------------------------------------------------------------- particles
    def gen_particle(self, f, names, depth, top=False, owner=None):
        """names: mutable list of unused element names for this type (keeps the model deterministic)."""
        r = self.r
        k = r.random()
        leaf_p = 0.15 if top else 0.6
        if depth <= 0 or k < leaf_p:
            return self.gen_leaf(f, names, owner)
        kind = "seq" if r.random() < 0.55 else "choice"
        n = r.choice([2, 2, 3, 3, 4])
        items = [self.gen_particle(f, names, depth - 1, owner=owner) for _ in range(n)]
        mn, mx = self.gen_occ(group=True)
        if kind == "choice" and r.random() < 0.3:
            # the shape compound fields are made for: a repeated choice of single elements
            items = [self.gen_leaf(f, names, owner, single=True) for _ in range(n)]
            mx = None if r.random() < 0.7 else mx
        return {"k": kind, "items": items, "min": mn, "max": mx}

    def gen_occ(self, group=False):
        r = self.r
        k = r.random()
        if k < (0.6 if group else 0.4):
            return 1, 1
        if k < 0.7:
            return 0, 1
        if k < 0.82:
            return 0, None
        if k < 0.9 or group:
            return 1, None        # libxml2 miscounts bounded repetitions of groups with optional content: 0/1/unbounded only
        return r.choice([(2, 3), (0, 2), (1, 4), (2, 2), (2, None)])

    def gen_leaf(self, f, names, owner=None, single=False):
        r = self.r
        mn, mx = (1, 1) if single else self.gen_occ()
        k = r.random()
        refs = [n for n, e in self.m["elements"].items() if self.visible(f, e["file"]) and n in names
                and not (e["type"][0] == "c" and e["type"][1] in self.blocked)]
        if self.has("refs") and refs and k < 0.3:
            n = r.choice(refs)
            names.remove(n)
            return {"k": "ref", "name": n, "min": mn, "max": mx}
        grs = [g for g, d in self.m["groups"].items() if self.visible(f, d["file"])
               and all(x in names for x in d["names"])]
        if self.has("groups") and grs and k < 0.45 and not single:
            g = r.choice(grs)
            for x in self.m["groups"][g]["names"]:
                names.remove(x)
            gm = (1, 1) if self.m["groups"][g]["particle"]["k"] == "all" else (mn, mx)
            return {"k": "group", "name": g, "min": gm[0], "max": gm[1]}
        # local element names and global element names are kept apart: a local element that shares its qualified name
        # with a global element of another type is legal, but what goes wrong then is class naming (C07), not C02
        local_names = [n for n in names if n not in self.m["elements"]]
        if not local_names:
            local_names = [self.fresh([x for x in EL_NAMES if x not in self.m["elements"]] or EL_NAMES, set(names))]
            names.append(local_names[0])
        name, force_anon = None, False
        if len(self.anon_seen) in (2, 3) and r.random() < 0.4:
            # an anonymous type inside an anonymous type: reuse the NAME of an anonymous-typed element declared earlier
            # on an outer level (same-named inner classes on different nesting depths of one class)
            outer = [n for lvl in self.anon_seen[:-1] for n in lvl if n in local_names]
            if outer:
                name, force_anon = r.choice(outer), True
        if name is None:
            hostile = [n for n in local_names if n in HOSTILE_EL]
            name = r.choice(hostile) if hostile and r.random() < 0.3 else r.choice(local_names)
        names.remove(name)
        self.local_used.add(name)
        decl = self.gen_local_decl(f, name, owner, force_anon=force_anon)
        return {"k": "el", "decl": decl, "min": mn, "max": mx}

    def gen_local_decl(self, f, name, owner=None, depth=0, force_anon=False):
        r = self.r
        fi = self.m["files"][f]
        decl = {"name": name, "type": None, "nillable": False, "form": None, "default": None, "fixed": None,
                "global": False, "abstract": False, "subst": None, "file": f}
        k = r.random()
        cts = [n for n, c in self.m["ctypes"].items() if self.visible(f, c["file"]) and n not in self.blocked]
        if cts and k < 0.25 and not force_anon:
            decl["type"] = ["c", r.choice(cts)]
        elif force_anon or (self.has("anon") and k < 0.4 and self.depth_budget > 0):
            self.depth_budget -= 1
            self.anon_seen[-1].append(name)
            self.anon_seen.append([])
            decl["type"] = ["ac", self.gen_cdef(f, None, depth=1)]
            self.anon_seen.pop()
        else:
            decl["type"] = self.simple_ref(f)
            kd = r.random()
            if self.has("defaults") and kd < 0.12:
                # a fixed value (optional elements and choice branches included: absent ones must stay absent)
                decl["type"] = ["b", r.choice(["string", "token", "int", "boolean", "date", "NMTOKEN", "gYear", "short", "integer"])]
                decl["fixed"] = self.fixed_for(decl["type"])
            elif self.has("defaults") and kd < 0.3:
                decl["default"] = self.default_for(decl["type"])
        if self.has("nillable") and r.random() < 0.25 and decl["default"] is None and decl["fixed"] is None:
            decl["nillable"] = True
        if self.has("ns") and r.random() < 0.15:
            decl["form"] = not fi["efd"]
        return decl

    # ---------------------------------------------------------------- complex types
    def gen_cdef(self, f, name, depth=0, allow_base=True):
        r = self.r
        c = {"name": name, "file": f, "mixed": False, "abstract": False, "base": None, "simple": None, "particle": None,
             "attrs": [], "agroups": [], "anyattr": None}
        taken_attrs = set()
        if depth == 0:
            self.anon_seen = [[]]
        names = [n for n in self.el_pool]
        r.shuffle(names)
        k = r.random()
        bases = [n for n, b in self.m["ctypes"].items() if self.visible(f, b["file"]) and not self.uses_all(b)
                 and n not in self.blocked]
        if self.has("ext") and allow_base and bases and k < 0.35:
            bn = r.choice(bases)
            c["base"] = bn
            if self.is_mixed(bn):
                c["mixed"] = True          # an extension of a mixed type is mixed
            for x in self.type_names(["c", bn]):
                if x in names:
                    names.remove(x)
            taken_attrs |= set(self.type_attr_names(["c", bn]))
            if self.m["ctypes"][bn]["simple"] is not None or self.simple_content(bn):
                c["attrs"] = self.gen_attrs(f, taken_attrs, r.choice([1, 1, 2]), text_field=True)
                return c
        elif self.has("simplecontent") and k < 0.5:
            c["simple"] = self.simple_ref(f, depth=3)
            c["attrs"] = self.gen_attrs(f, taken_attrs, r.choice([1, 1, 2]), text_field=True)
            return c
        if self.has("mixed") and c["base"] is None and r.random() < 0.3:
            c["mixed"] = True
        if self.has("all") and c["base"] is None and r.random() < 0.2:
            n = r.choice([1, 2, 3])
            items = []
            for _ in range(n):
                p = self.gen_leaf(f, names, name, single=True)
                p["min"] = r.choice([0, 1])
                items.append(p)
            c["particle"] = {"k": "all", "items": items, "min": r.choice([1, 1, 0]), "max": 1}
        elif r.random() < 0.92 or c["base"]:
            if r.random() < (0.45 if (c["base"] and self.has_rep_choice(c["base"])) else 0.15):
                # the shape compound fields are made for, with enough branches for the default field name ("choice")
                n = r.choice([2, 3, 4, 5, 5])
                p = {"k": "choice", "items": [self.gen_leaf(f, names, name, single=True) for _ in range(n)],
                     "min": r.choice([0, 1]), "max": None}
            else:
                p = self.gen_particle(f, names, 2 if depth == 0 else 1, top=True, owner=name)
            if p["k"] in ("el", "ref", "group", "any"):
                p = {"k": "seq", "items": [p], "min": 1, "max": 1}
            c["particle"] = p
            # recursion: an optional child of this very type
            if self.has("recursion") and name and r.random() < 0.5 and p["k"] == "seq":
                rn = self.fresh([n for n in names if n not in self.m["elements"]] or EL_NAMES, set(self.m["elements"]))
                self.local_used.add(rn)
                if rn in names:
                    names.remove(rn)
                d = {"name": rn, "type": ["c", name], "nillable": False, "form": None, "default": None, "fixed": None,
                     "global": False, "abstract": False, "subst": None, "file": f}
                p["items"].append({"k": "el", "decl": d, "min": 0, "max": r.choice([1, None])})
            if self.has("wild") and r.random() < 0.4 and p["k"] == "seq" and not c["mixed"] and not (
                    c["base"] and self.type_has_wild(c["base"])):
                ns = r.choice(["##other", "##other", "##any", "##local", "##targetNamespace", FOREIGN[0],
                               FOREIGN[0] + " " + FOREIGN[1], "##other"])
                p["items"].append({"k": "any", "ns": ns, "pc": r.choice(["lax", "skip"]),
                                   "min": r.choice([0, 0, 1]), "max": r.choice([1, None, None, 2])})
        c["attrs"] = self.gen_attrs(f, taken_attrs)
        ags = [g for g, d in self.m["agroups"].items() if self.visible(f, d["file"])
               and not (set(self.agroup_names(g)) & taken_attrs)]
        if self.has("agroups") and ags and r.random() < 0.4:
            g = r.choice(ags)
            c["agroups"].append(g)
            taken_attrs |= set(self.agroup_names(g))
        if self.has("anyattr") and r.random() < 0.25:
            c["anyattr"] = r.choice(["##other", "##any", FOREIGN[0]])
        return c

    def is_mixed(self, name):
        c = self.m["ctypes"][name]
        return c["mixed"] or (c["base"] is not None and self.is_mixed(c["base"]))

    def has_rep_choice(self, name):
        c = self.m["ctypes"][name]
        p = c["particle"]

        def rep(p):
            if p is None or p["k"] in ("el", "ref", "any", "group"):
                return False
            if p["k"] == "choice" and p["max"] is None:
                return True
            return any(rep(i) for i in p["items"])
        return rep(p) or (c["base"] is not None and self.has_rep_choice(c["base"]))

    def type_has_wild(self, name):
        c = self.m["ctypes"][name]
        p = c["particle"]
        return bool(p and p["k"] == "seq" and p["items"] and p["items"][-1]["k"] == "any") or (
            c["base"] is not None and self.type_has_wild(c["base"]))

    def simple_content(self, name):
        c = self.m["ctypes"][name]
        if c["simple"] is not None:
            return True
        return c["base"] is not None and self.simple_content(c["base"])

    def uses_all(self, c):
        p = c["particle"]
        if p is not None and p["k"] == "all":
            return True
        if p is not None and any(i["k"] == "group" and self.m["groups"][i["name"]]["particle"]["k"] == "all"
                                 for i in p.get("items", [])):
            return True
        return False

    def agroup_names(self, g):
        return [a.get("name") or a.get("ref") for a in self.m["agroups"][g]["attrs"]]

    def type_attr_names(self, t):
        c = self.m["ctypes"][t[1]] if t[0] == "c" else t[1]
        out = [a.get("name") or a.get("ref") for a in c["attrs"]]
        for g in c["agroups"]:
            out += self.agroup_names(g)
        if c["base"]:
            out += self.type_attr_names(["c", c["base"]])
        return out

    def particle_names(self, p):
        if p is None:
            return []
        if p["k"] == "el":
            return [p["decl"]["name"]]
        if p["k"] == "ref":
            out = [p["name"]]
            return out + [n for n, e in self.m["elements"].items() if e["subst"] == p["name"]]
        if p["k"] == "group":
            return list(self.m["groups"][p["name"]]["names"])
        if p["k"] == "any":
            return []
        out = []
        for i in p["items"]:
            out += self.particle_names(i)
        return out

    def type_names(self, t):
        c = self.m["ctypes"][t[1]] if t[0] == "c" else t[1]
        out = self.particle_names(c["particle"])
        if c["base"]:
            out += self.type_names(["c", c["base"]])
        return out

    # ---------------------------------------------------------------- the whole schema
    def generate(self):
        r, m = self.r, self.m
        # files
        nfiles = r.choice([2, 2, 3]) if self.has("multi") else 1
        tns0 = r.choice(URIS) if (self.has("ns") or r.random() < 0.5) else None
        for i in range(nfiles):
            if i == 0:
                tns = tns0
            else:
                tns = tns0 if r.random() < 0.5 else r.choice([u for u in URIS if u != tns0])
                if tns in [x["tns"] for x in m["files"]] and tns != tns0:
                    tns = tns0
            m["files"].append({"name": "main.xsd" if i == 0 else f"sub/part{i}.xsd" if r.random() < 0.3 else f"part{i}.xsd",
                               "tns": tns, "efd": (r.random() < 0.7) if tns else False,
                               "afd": (r.random() < 0.15) if (tns and self.has("ns")) else False})
        # a namespaced file must not come before a no-namespace one: it would import it, and xsdata gives a no-namespace
        # schema that is IMPORTED from a namespaced one the importer's namespace (finding C02-F18, kept as a witness)
        m["files"][1:] = sorted(m["files"][1:], key=lambda f: f["tns"] is not None)
        self.depth_budget = 3
        # named simple types
        if self.has("simple"):
            for _ in range(r.choice([1, 2, 3])):
                n = self.fresh(STYPE_NAMES, set(m["stypes"]))
                f = self.pick_file()
                m["stypes"][n] = {"file": f, "def": self.gen_sdef(f)}
        # global attributes, attribute groups
        if self.has("agroups"):
            for _ in range(r.choice([1, 2])):
                n = self.fresh(["gattr", "code", "xlang", "ga"], set(m["gattrs"]))
                f = self.pick_file()
                m["gattrs"][n] = {"file": f, "type": self.simple_ref(f), "name": n}
            for _ in range(r.choice([1, 2])):
                n = self.fresh(["AG1", "AG2", "common-attrs"], set(m["agroups"]))
                f = self.pick_file()
                m["agroups"][n] = {"file": f, "attrs": self.gen_attrs(f, set(), r.choice([1, 2]))}
        # leaf global elements (targets of refs, heads of substitution groups)
        if self.has("refs") or self.has("subst"):
            for _ in range(r.choice([1, 2, 3])):
                n = self.fresh(self.el_pool, set(m["elements"]) | self.local_used)
                f = self.pick_file()
                m["elements"][n] = {"name": n, "type": self.simple_ref(f), "nillable": False, "form": None, "default": None,
                                    "fixed": None, "global": True, "abstract": False, "subst": None, "file": f}
        # model groups
        if self.has("groups"):
            for _ in range(r.choice([1, 2])):
                n = self.fresh(["G1", "G2", "grp-x"], set(m["groups"]))
                f = self.pick_file()
                names = [x for x in self.el_pool if x not in self.group_taken()]
                before = list(names)
                kind = r.choice(["seq", "choice", "seq"])
                items = [self.gen_leaf(f, names, None, single=(r.random() < 0.5)) for _ in range(r.choice([1, 2, 3]))]
                items = [i for i in items if i["k"] != "group"]
                if not items:
                    continue
                used = [x for x in before if x not in names]
                m["groups"][n] = {"file": f, "particle": {"k": kind, "items": items, "min": 1, "max": 1}, "names": used}
        # named complex types
        for _ in range(r.choice([1, 2, 3, 4])):
            n = self.fresh(TYPE_NAMES, set(m["ctypes"]))
            f = self.pick_file()
            c = self.gen_cdef(f, n)
            m["ctypes"][n] = c
            if self.has("ext") and r.random() < 0.15 and c["base"] is None:
                c["abstract"] = True
        # every abstract type needs a concrete derived type
        for n, c in list(m["ctypes"].items()):
            if c["abstract"] and not self.concrete_derived(n):
                dn = self.fresh(TYPE_NAMES, set(m["ctypes"]))
                self.blocked = {x for x in m["ctypes"] if self.mentions(x, n)} | {n}
                d = self.gen_cdef(min(c["file"], self.pick_file()), dn, allow_base=False)
                self.blocked = set()
                if self.uses_all(d) or d["mixed"] != self.is_mixed(n) or d["simple"] is not None or self.simple_content(n):
                    c["abstract"] = False
                    continue
                d["base"] = n
                # names of the base must not be reused by the extension
                clash = set(self.type_names(["c", n])) & set(self.particle_names(d["particle"]))
                aclash = set(self.type_attr_names(["c", n])) & set([a.get("name") or a.get("ref") for a in d["attrs"]] + [x for g in d["agroups"] for x in self.agroup_names(g)])
                if clash or aclash or self.uses_all(c):
                    c["abstract"] = False
                    continue
                m["ctypes"][dn] = d
        # global elements of complex type; substitution groups
        for _ in range(r.choice([1, 2]) if self.has("subst") else r.choice([0, 1, 2])):
            n = self.fresh(self.el_pool, set(m["elements"]) | self.local_used)
            f = self.pick_file()
            cts = [x for x, c in m["ctypes"].items() if self.visible(f, c["file"])]
            if not cts:
                continue
            m["elements"][n] = {"name": n, "type": ["c", r.choice(cts)], "nillable": self.has("nillable") and r.random() < 0.2,
                                "form": None, "default": None, "fixed": None, "global": True, "abstract": False,
                                "subst": None, "file": f}
        for _round in range(2 if self.has("subst") else 0):
            if _round == 1 and r.random() < 0.5:
                break                                   # second round: members of members (nested substitution)
            heads = [n for n, e in m["elements"].items() if e["type"][0] in ("b", "s", "c")]
            cheads = [n for n in heads if m["elements"][n]["type"][0] == "c"]
            picked = r.sample(heads, min(len(heads), r.choice([1, 1, 2])))
            if cheads and not any(h in cheads for h in picked):
                picked.append(r.choice(cheads))         # complex-typed heads: members may then be typed by derived types
            for h in picked:
                he = m["elements"][h]
                for _ in range(r.choice([1, 2])):
                    n = self.fresh(self.el_pool, set(m["elements"]) | self.local_used)
                    f = min(he["file"], self.pick_file())
                    t = he["type"]
                    if t[0] == "c":
                        ders = [x for x in self.derived_types(t[1]) if self.visible(f, m["ctypes"][x]["file"])]
                        if ders and r.random() < 0.5:
                            t = ["c", r.choice(ders)]
                    if t[0] == "c" and not self.visible(f, m["ctypes"][t[1]]["file"]):
                        continue
                    if t[0] == "s" and not self.visible(f, m["stypes"][t[1]]["file"]):
                        continue
                    if t[0] == "c" and n not in m["ctypes"] and r.random() < 0.7 and not self.uses_all(m["ctypes"][t[1]]) \
                            and not self.simple_content(t[1]):
                        # the member is typed by a global complex type of its OWN name, derived from the head's type
                        base = t[1]
                        self.blocked = {x for x in m["ctypes"] if self.mentions(x, base)} | {base}
                        d = self.gen_cdef(min(f, m["ctypes"][base]["file"]), n, allow_base=False)
                        self.blocked = set()
                        clash = set(self.type_names(["c", base])) & set(self.particle_names(d["particle"]))
                        aclash = set(self.type_attr_names(["c", base])) & set(
                            [a.get("name") or a.get("ref") for a in d["attrs"]] + [x for g in d["agroups"] for x in self.agroup_names(g)])
                        if not clash and not aclash and not self.uses_all(d) and d["simple"] is None \
                                and (d["particle"] is None or d["particle"]["k"] != "all"):
                            d["base"], d["mixed"], d["file"] = base, self.is_mixed(base), min(f, m["ctypes"][base]["file"])
                            if not (self.type_has_wild(base) and d["particle"] and d["particle"]["items"][-1:] and
                                    d["particle"]["items"][-1]["k"] == "any"):
                                m["ctypes"][n] = d
                                f = d["file"]
                                t = ["c", n]
                    m["elements"][n] = {"name": n, "type": t, "nillable": False, "form": None, "default": None, "fixed": None,
                                        "global": True, "abstract": False, "subst": h, "file": f}
                if r.random() < 0.25 and he["subst"] is None:
                    he["abstract"] = True
        # root
        rn = self.fresh(["root", "doc", "Root", "envelope", "message"] + ([x for x in m["ctypes"]][:1] if r.random() < 0.1 else []),
                        set(m["elements"]) | self.local_used)
        cts = list(m["ctypes"])
        k = r.random()
        if cts and k < 0.35:
            rt = ["c", r.choice(cts)]
        else:
            self.depth_budget = 3
            rt = ["ac", self.gen_cdef(0, None)]
            # make sure the root uses what was built: refs and named types
            p = rt[1]["particle"]
            if p is not None and p["k"] == "seq" and rt[1]["simple"] is None:
                have = set(self.type_names(rt)) | {rn}
                extra = []
                for n, e in m["elements"].items():
                    if n not in have and e["subst"] is None and r.random() < 0.7 and not (set(self.subst_members(n)) & have):
                        mn, mx = self.gen_occ()
                        extra.append({"k": "ref", "name": n, "min": mn, "max": mx})
                        have |= {n} | set(self.subst_members(n))
                for n in cts:
                    en = self.fresh([x for x in self.el_pool if x not in have and x not in m["elements"]] or EL_NAMES,
                                    have | set(m["elements"]))
                    if r.random() < 0.6:
                        mn, mx = self.gen_occ()
                        d = {"name": en, "type": ["c", n], "nillable": self.has("nillable") and r.random() < 0.2, "form": None,
                             "default": None, "fixed": None, "global": False, "abstract": False, "subst": None, "file": 0}
                        extra.append({"k": "el", "decl": d, "min": mn, "max": mx})
                        have.add(en)
                # before a trailing wildcard
                items = p["items"]
                at = len(items) - 1 if items and items[-1]["k"] == "any" else len(items)
                items[at:at] = extra
        m["elements"][rn] = {"name": rn, "type": rt, "nillable": False, "form": None, "default": None, "fixed": None,
                             "global": True, "abstract": False, "subst": None, "file": 0}
        m["root"] = rn
        return m

    def mentions(self, x, target, seen=None):
        """does complex type x (transitively) mention complex type `target`?"""
        seen = seen if seen is not None else set()
        if x == target:
            return True
        if x in seen:
            return False
        seen.add(x)
        return any(self.mentions(y, target, seen) for y in self.cdef_mentions(self.m["ctypes"][x]))

    def cdef_mentions(self, c):
        out = [c["base"]] if c["base"] else []

        def walk(p):
            if p is None:
                return
            if p["k"] == "el":
                t = p["decl"]["type"]
                if t[0] == "c":
                    out.append(t[1])
                elif t[0] == "ac":
                    out.extend(self.cdef_mentions(t[1]))
            elif p["k"] == "ref":
                for n in [p["name"]] + self.subst_members(p["name"]):
                    t = self.m["elements"][n]["type"]
                    if t[0] == "c":
                        out.append(t[1])
            elif p["k"] == "group":
                walk(self.m["groups"][p["name"]]["particle"])
            elif p["k"] != "any":
                for i in p["items"]:
                    walk(i)

        walk(c["particle"])
        return out

    def group_taken(self):
        out = set()
        for g in self.m["groups"].values():
            out |= set(g["names"])
        return out

    def subst_members(self, head):
        return [n for n, e in self.m["elements"].items() if e["subst"] == head]

    def derived_types(self, name):
        out = []
        for n, c in self.m["ctypes"].items():
            b = c["base"]
            while b:
                if b == name:
                    out.append(n)
                    break
                b = self.m["ctypes"][b]["base"]
        return out

    def concrete_derived(self, name):
        return [n for n in self.derived_types(name) if not self.m["ctypes"][n]["abstract"]]


FEATURES = ["ns", "simple", "refs", "groups", "ext", "simplecontent", "mixed", "all", "wild", "anon", "defaults",
            "nillable", "recursion", "agroups", "anyattr", "subst", "multi"]
BASIC = ["anon", "simple", "defaults"]


def gen_model(rng, features=None):
    if features is None:
        k = rng.choice([2, 3, 4, 5])
        features = set(rng.sample(FEATURES, k)) | set(rng.sample(BASIC, 2))
        if "subst" in features:
            features.add("refs")
    return SchemaGen(rng, features).generate()


# ============================================================================ XSD text
def esc(s, attr=False):
    s = s.replace("&", "&amp;").replace("<", "&lt;").replace(">", "&gt;")
    if attr:
        s = s.replace('"', "&quot;").replace("\n", "&#10;").replace("\t", "&#9;")
    return s


class XsdWriter:
    def __init__(self, m):
        self.m = m
        self.prefixes = {}
        for i, f in enumerate(m["files"]):
            if f["tns"] and f["tns"] not in self.prefixes:
                self.prefixes[f["tns"]] = f"t{len(self.prefixes)}"

    def qn(self, file_idx):
        tns = self.m["files"][file_idx]["tns"]
        return (self.prefixes[tns] + ":") if tns else ""

    def tref(self, t):
        if t[0] == "b":
            return "xs:" + t[1]
        if t[0] == "s":
            return self.qn(self.m["stypes"][t[1]]["file"]) + t[1]
        if t[0] == "c":
            return self.qn(self.m["ctypes"][t[1]]["file"]) + t[1]
        raise KeyError(t[0])

    def occ(self, p):
        out = ""
        if p["min"] != 1:
            out += f' minOccurs="{p["min"]}"'
        if p["max"] != 1:
            out += f' maxOccurs="{"unbounded" if p["max"] is None else p["max"]}"'
        return out

    def sdef(self, d, name=None, ind="  "):
        nm = f' name="{name}"' if name else ""
        out = [f"{ind}<xs:simpleType{nm}>"]
        if d["k"] == "list":
            it = d["item"]
            if it[0] == "as":
                out += [f"{ind}  <xs:list>", self.sdef(it[1], None, ind + "    "), f"{ind}  </xs:list>"]
            else:
                out.append(f'{ind}  <xs:list itemType="{self.tref(it)}"/>')
        elif d["k"] == "union":
            named = [x for x in d["members"] if x[0] != "as"]
            anon = [x for x in d["members"] if x[0] == "as"]
            # memberTypes come first in the ordered set of member types
            mt = f' memberTypes="{" ".join(self.tref(x) for x in named)}"' if named else ""
            if anon:
                out.append(f"{ind}  <xs:union{mt}>")
                out += [self.sdef(x[1], None, ind + "    ") for x in anon]
                out.append(f"{ind}  </xs:union>")
            else:
                out.append(f"{ind}  <xs:union{mt}/>")
        else:
            b = d["base"]
            if b[0] == "as":
                out.append(f"{ind}  <xs:restriction>")
                out.append(self.sdef(b[1], None, ind + "    "))
            else:
                out.append(f'{ind}  <xs:restriction base="{self.tref(b)}">')
            for v in d.get("enum") or []:
                out.append(f'{ind}    <xs:enumeration value="{esc(v, True)}"/>')
            for k, v in (d.get("facets") or {}).items():
                out.append(f'{ind}    <xs:{k} value="{esc(str(v), True)}"/>')
            out.append(f"{ind}  </xs:restriction>")
        out.append(f"{ind}</xs:simpleType>")
        return "\n".join(out)

    def type_attr_or_body(self, t, ind):
        """(attribute text, nested body or None)"""
        if t[0] == "as":
            return "", self.sdef(t[1], None, ind + "  ")
        if t[0] == "ac":
            return "", self.cdef(t[1], None, ind + "  ")
        return f' type="{self.tref(t)}"', None

    def edecl(self, e, occ="", ind="  "):
        ta, body = self.type_attr_or_body(e["type"], ind)
        a = f' name="{e["name"]}"{ta}{occ}'
        if e["nillable"]:
            a += ' nillable="true"'
        if e.get("abstract"):
            a += ' abstract="true"'
        if e.get("subst"):
            a += f' substitutionGroup="{self.qn(self.m["elements"][e["subst"]]["file"])}{e["subst"]}"'
        if e["form"] is not None and not e["global"]:
            a += f' form="{"qualified" if e["form"] else "unqualified"}"'
        if e["default"] is not None:
            a += f' default="{esc(e["default"], True)}"'
        if e["fixed"] is not None:
            a += f' fixed="{esc(e["fixed"], True)}"'
        if body is None:
            return f"{ind}<xs:element{a}/>"
        return f"{ind}<xs:element{a}>\n{body}\n{ind}</xs:element>"

    def particle(self, p, ind):
        k = p["k"]
        if k == "el":
            return self.edecl(p["decl"], self.occ(p), ind)
        if k == "ref":
            return f'{ind}<xs:element ref="{self.qn(self.m["elements"][p["name"]]["file"])}{p["name"]}"{self.occ(p)}/>'
        if k == "group":
            return f'{ind}<xs:group ref="{self.qn(self.m["groups"][p["name"]]["file"])}{p["name"]}"{self.occ(p)}/>'
        if k == "any":
            return f'{ind}<xs:any namespace="{p["ns"]}" processContents="{p["pc"]}"{self.occ(p)}/>'
        tag = {"seq": "sequence", "choice": "choice", "all": "all"}[k]
        inner = "\n".join(self.particle(i, ind + "  ") for i in p["items"])
        return f"{ind}<xs:{tag}{self.occ(p)}>\n{inner}\n{ind}</xs:{tag}>"

    def ause(self, a, ind):
        if "ref" in a:
            s = f' ref="{self.qn(self.m["gattrs"][a["ref"]]["file"])}{a["ref"]}"'
            body = None
        else:
            ta, body = self.type_attr_or_body(a["type"], ind)
            s = f' name="{a["name"]}"{ta}'
            if a["form"] is not None:
                s += f' form="{"qualified" if a["form"] else "unqualified"}"'
        if a["use"] == "required":
            s += ' use="required"'
        if a["default"] is not None:
            s += f' default="{esc(a["default"], True)}"'
        if a["fixed"] is not None:
            s += f' fixed="{esc(a["fixed"], True)}"'
        if body is None:
            return f"{ind}<xs:attribute{s}/>"
        return f"{ind}<xs:attribute{s}>\n{body}\n{ind}</xs:attribute>"

    def attrs_text(self, c, ind):
        out = [self.ause(a, ind) for a in c["attrs"]]
        for g in c["agroups"]:
            out.append(f'{ind}<xs:attributeGroup ref="{self.qn(self.m["agroups"][g]["file"])}{g}"/>')
        if c["anyattr"]:
            out.append(f'{ind}<xs:anyAttribute namespace="{c["anyattr"]}" processContents="lax"/>')
        return out

    def cdef(self, c, name=None, ind="  "):
        a = f' name="{name}"' if name else ""
        if c["mixed"]:
            a += ' mixed="true"'
        if c["abstract"]:
            a += ' abstract="true"'
        out = [f"{ind}<xs:complexType{a}>"]
        if c["simple"] is not None:
            t = c["simple"]
            if t[0] == "as":
                # an anonymous simple type cannot be the base of a simple-content extension: wrap through restriction
                raise ValueError("anonymous simple base")
            out.append(f"{ind}  <xs:simpleContent>")
            out.append(f'{ind}    <xs:extension base="{self.tref(t)}">')
            out += self.attrs_text(c, ind + "      ")
            out += [f"{ind}    </xs:extension>", f"{ind}  </xs:simpleContent>"]
        elif c["base"]:
            b = self.m["ctypes"][c["base"]]
            tag = "simpleContent" if (b["simple"] is not None or self._simple(c["base"])) else "complexContent"
            out.append(f"{ind}  <xs:{tag}>")
            out.append(f'{ind}    <xs:extension base="{self.tref(["c", c["base"]])}">')
            if c["particle"] is not None and tag == "complexContent":
                out.append(self.particle(c["particle"], ind + "      "))
            out += self.attrs_text(c, ind + "      ")
            out += [f"{ind}    </xs:extension>", f"{ind}  </xs:{tag}>"]
        else:
            if c["particle"] is not None:
                out.append(self.particle(c["particle"], ind + "  "))
            out += self.attrs_text(c, ind + "  ")
        out.append(f"{ind}</xs:complexType>")
        return "\n".join(out)

    def _simple(self, name):
        c = self.m["ctypes"][name]
        return c["simple"] is not None or (c["base"] is not None and self._simple(c["base"]))

    def file_text(self, i):
        m, f = self.m, self.m["files"][i]
        a = ['xmlns:xs="%s"' % XS]
        for uri, p in self.prefixes.items():
            a.append(f'xmlns:{p}="{uri}"')
        if f["tns"]:
            a.append(f'targetNamespace="{f["tns"]}"')
        if f["efd"]:
            a.append('elementFormDefault="qualified"')
        if f["afd"]:
            a.append('attributeFormDefault="qualified"')
        out = ['<?xml version="1.0" encoding="UTF-8"?>', "<xs:schema " + " ".join(a) + ">"]
        for j in range(i + 1, len(m["files"])):
            g = m["files"][j]
            loc = relpath(f["name"], g["name"])
            if g["tns"] == f["tns"]:
                out.append(f'  <xs:include schemaLocation="{loc}"/>')
            elif g["tns"] not in [m["files"][k]["tns"] for k in range(i + 1, j)]:
                ns = f' namespace="{g["tns"]}"' if g["tns"] else ""
                out.append(f'  <xs:import{ns} schemaLocation="{loc}"/>')
            else:
                # a second file of an already imported namespace: reach it through an import as well
                ns = f' namespace="{g["tns"]}"' if g["tns"] else ""
                out.append(f'  <xs:import{ns} schemaLocation="{loc}"/>')
        for n, e in m["elements"].items():
            if e["file"] == i:
                out.append(self.edecl(e))
        for n, c in m["ctypes"].items():
            if c["file"] == i:
                out.append(self.cdef(c, n))
        for n, s in m["stypes"].items():
            if s["file"] == i:
                out.append(self.sdef(s["def"], n))
        for n, g in m["groups"].items():
            if g["file"] == i:
                out.append(f'  <xs:group name="{n}">\n{self.particle(g["particle"], "    ")}\n  </xs:group>')
        for n, g in m["agroups"].items():
            if g["file"] == i:
                out.append(f'  <xs:attributeGroup name="{n}">\n' + "\n".join(self.ause(a, "    ") for a in g["attrs"])
                           + "\n  </xs:attributeGroup>")
        for n, g in m["gattrs"].items():
            if g["file"] == i:
                ta, body = self.type_attr_or_body(g["type"], "  ")
                out.append(f'  <xs:attribute name="{n}"{ta}/>' if body is None else
                           f'  <xs:attribute name="{n}">\n{body}\n  </xs:attribute>')
        out.append("</xs:schema>")
        return "\n".join(out) + "\n"


def relpath(frm, to):
    import posixpath
    return posixpath.relpath(to, posixpath.dirname(frm) or ".")


def schema_texts(m):
    w = XsdWriter(m)
    return {f["name"]: w.file_text(i) for i, f in enumerate(m["files"])}


# ============================================================================ instance documents
class TooDeep(Exception):
    pass


class DocGen:
    """Schema-valid documents drawn from the abstract model.  A node is
    ["e", qname, [[attr qname, value]...], [child node | text...], {"eo": element-only?}]."""

    def __init__(self, m, rng):
        self.m = m
        self.r = rng
        self.sg = SchemaGen(rng, m["features"])
        self.sg.m = m
        self.style = "rand"
        self.depth = 0
        self.nodes = 0
        self.vary = True          # False: canonical-looking lexical forms; True: varied forms; "exotic": also empty values
        self.exotic = False       # xsi:nil instances, empty elements where a default applies, empty lists / strings

    # -- names
    def el_qname(self, e):
        f = self.m["files"][e["file"]]
        q = e["global"] or (e["form"] if e["form"] is not None else f["efd"])
        return ("{%s}%s" % (f["tns"], e["name"])) if (q and f["tns"]) else e["name"]

    def at_qname(self, a, f):
        fi = self.m["files"][f]
        if "ref" in a:
            g = self.m["gattrs"][a["ref"]]
            tns = self.m["files"][g["file"]]["tns"]
            return ("{%s}%s" % (tns, a["ref"])) if tns else a["ref"]
        q = a["form"] if a["form"] is not None else fi["afd"]
        return ("{%s}%s" % (fi["tns"], a["name"])) if (q and fi["tns"]) else a["name"]

    def type_qname(self, name):
        tns = self.m["files"][self.m["ctypes"][name]["file"]]["tns"]
        return ("{%s}%s" % (tns, name)) if tns else name

    # -- counts
    def count(self, p):
        mn, mx = p["min"], p["max"]
        if self.style == "min" or self.depth > 2 or self.nodes > 70:
            return mn                                   # size budget: large documents only cost evaluation time
        hi = mx if mx is not None else max(mn, 1) + 2
        if self.depth == 2:
            hi = min(hi, max(mn, 1))
        if self.style == "max":
            return min(hi, mn + 3) if self.depth < 2 else hi
        return self.r.choice([mn, hi, self.r.randint(mn, hi), min(max(mn, 1), hi)])

    # -- element content
    def children(self, p, tns_of_type):
        """word of child nodes for particle p"""
        out = []
        if p is None:
            return out
        for _ in range(self.count(p)):
            k = p["k"]
            if k == "el":
                out.append(self.element(p["decl"]))
            elif k == "ref":
                cands = [p["name"]] + self.sg.subst_members(p["name"])
                for x in list(cands):
                    cands += self.sg.subst_members(x) if x != p["name"] else []
                cands = [c for c in cands if not self.m["elements"][c]["abstract"]]
                pick = cands[0] if (self.style == "min" and self.r.random() < 0.5) else self.r.choice(cands)
                out.append(self.element(self.m["elements"][pick]))
            elif k == "group":
                out += self.children(self.m["groups"][p["name"]]["particle"], tns_of_type)
            elif k == "any":
                out.append(self.wild(p["ns"], tns_of_type))
            elif k == "seq":
                for i in p["items"]:
                    out += self.children(i, tns_of_type)
            elif k == "choice":
                if self.depth > 2 or self.style == "min":
                    items = sorted(p["items"], key=lambda i: (i["min"] > 0, self.weight(i)))
                    out += self.children(items[0], tns_of_type)
                else:
                    out += self.children(self.r.choice(p["items"]), tns_of_type)
            elif k == "all":
                items = list(p["items"])
                self.r.shuffle(items)
                for i in items:
                    out += self.children(i, tns_of_type)
        return out

    def weight(self, p):
        if p["k"] in ("el", "ref", "any", "group"):
            return 1
        return 1 + sum(self.weight(i) for i in p["items"])

    def wild(self, ns, tns):
        r = self.r
        toks = ns.split()
        if ns == "##any":
            uri = r.choice([FOREIGN[0], None, tns, FOREIGN[1]])
        elif ns == "##other":
            uri = r.choice(FOREIGN)
        elif ns == "##local":
            uri = None
        elif ns == "##targetNamespace":
            uri = tns
        else:
            uri = r.choice(toks)
        name = r.choice(["w", "zz", "wild-el", "W1"])
        q = ("{%s}%s" % (uri, name)) if uri else name
        kids = []
        attrs = []
        if r.random() < 0.4:
            attrs.append(["k", r.choice(["1", "v w", ""])])
        k = r.random()
        if k < 0.4:
            kids = [r.choice(["text", "1", " sp ", "x<y"])]
        elif k < 0.6:
            q2 = ("{%s}%s" % (uri, "inner")) if uri else "inner"
            kids = [["e", q2, [], [r.choice(["t", "2"])] if r.random() < 0.6 else [], {"eo": False, "wild": True}]]
        return ["e", q, attrs, kids, {"eo": False, "wild": True}]

    def effective(self, c):
        """(particles in order base-first, attribute uses, anyattr, simple tref, mixed) of a complex type"""
        parts, attrs, anyattr, simple, mixed = [], [], None, None, c["mixed"]
        if c["base"]:
            b = self.m["ctypes"][c["base"]]
            parts, attrs, anyattr, simple, bm = self.effective(b)
            mixed = mixed or bm
        if c["particle"] is not None:
            parts = parts + [c["particle"]]
        attrs = attrs + [(a, c["file"]) for a in c["attrs"]]
        for g in c["agroups"]:
            ag = self.m["agroups"][g]
            attrs = attrs + [(a, ag["file"]) for a in ag["attrs"]]
        if c["anyattr"]:
            anyattr = c["anyattr"]
        if c["simple"] is not None:
            simple = c["simple"]
        return parts, attrs, anyattr, simple, mixed

    def attributes(self, attrs, anyattr, tns):
        r = self.r
        out = []
        for a, f in attrs:
            q = self.at_qname(a, f)
            t = a["type"] if "ref" not in a else self.m["gattrs"][a["ref"]]["type"]
            present = a["use"] == "required" or (self.style == "max") or (self.style == "rand" and r.random() < 0.55)
            if not present:
                continue
            if a["fixed"] is not None:
                out.append([q, a["fixed"]])
            else:
                out.append([q, self.attr_value(t)])
        if anyattr and self.style != "min" and r.random() < 0.7:
            uri = FOREIGN[0] if anyattr != "##any" else r.choice([FOREIGN[0], FOREIGN[1]])
            out.append(["{%s}%s" % (uri, r.choice(["extra", "x1"])), r.choice(["v", "1", "a b"])])
        r.shuffle(out)
        return out

    def attr_value(self, t):
        for _ in range(20):
            v = self.sg.gen_value(t, self.vary)
            if "\n" not in v and "\t" not in v:          # attribute-value normalisation would change them
                return v
        return self.sg.gen_value(t, False).replace("\n", " ").replace("\t", " ")

    def text_value(self, t):
        return self.sg.gen_value(t, self.vary)

    def element(self, e, as_root=False):
        r = self.r
        q = self.el_qname(e)
        t = e["type"]
        attrs, kids, info = [], [], {"eo": False}
        self.depth += 1
        self.nodes += 1
        if self.depth > 12:
            raise TooDeep()
        try:
            if e["nillable"] and not as_root and self.exotic and r.random() < 0.4:
                attrs.append(["{%s}nil" % XSI, r.choice(["true", "1"])])
                if t[0] in ("c", "ac"):
                    c = self.m["ctypes"][t[1]] if t[0] == "c" else t[1]
                    if not c["abstract"]:
                        _, ats, _, _, _ = self.effective(c)
                        attrs += self.attributes([x for x in ats if x[0]["use"] == "required"], None, None)
                        return ["e", q, attrs, [], info]
                else:
                    return ["e", q, attrs, [], info]
                attrs = []
            if t[0] in ("c", "ac"):
                c = self.m["ctypes"][t[1]] if t[0] == "c" else t[1]
                if t[0] == "c":
                    ders = self.sg.concrete_derived(t[1])
                    if c["abstract"] or (ders and self.style != "min" and r.random() < 0.35):
                        d = r.choice(ders)
                        attrs.append(["{%s}type" % XSI, ("QN", self.type_qname(d))])
                        c = self.m["ctypes"][d]
                parts, ats, anyattr, simple, mixed = self.effective(c)
                tns = self.m["files"][c["file"]]["tns"]
                attrs += self.attributes(ats, anyattr, tns)
                if simple is not None:
                    kids = [self.text_value(simple)]
                else:
                    for p in parts:
                        kids += self.children(p, tns)
                    info["eo"] = not mixed
                    if mixed:
                        info["mixed"] = True
                        kids = self.interleave(kids)
            else:
                if e["fixed"] is not None:
                    kids = [e["fixed"]] if (r.random() < 0.7 or not self.exotic) else []
                elif e["default"] is not None and self.exotic and r.random() < 0.5:
                    kids = []
                else:
                    kids = [self.text_value(t)]
            return ["e", q, attrs, [k for k in kids if k != ""], info]
        finally:
            self.depth -= 1

    def interleave(self, kids):
        r = self.r
        out = []
        texts = ["txt", "hello ", " a&b ", "x<y", "1", "tail"]
        if r.random() < 0.6:
            out.append(r.choice(texts))
        for k in kids:
            out.append(k)
            if r.random() < 0.5:
                out.append(r.choice(texts))
        return out

    def document(self, style="rand", pretty=False, prefix_style=0):
        self.style = style
        self.depth = 0
        self.nodes = 0
        root = self.element(self.m["elements"][self.m["root"]], as_root=True)
        return render(root, pretty, prefix_style, self.r)


def split_q(q):
    if q.startswith("{"):
        u, l = q[1:].split("}")
        return u, l
    return None, q


def render(node, pretty=False, prefix_style=0, rng=None):
    """Serialise a node tree.  prefix_style 0: the root's namespace is the default namespace;
    1: every namespace has a prefix declared on the root; 2: declarations where first used."""
    uris = []

    def collect(n):
        for q in [n[1]] + [a[0] for a in n[2]]:
            u, _ = split_q(q)
            if u and u not in uris:
                uris.append(u)
        for a in n[2]:
            if isinstance(a[1], tuple):
                u, _ = split_q(a[1][1])
                if u and u not in uris:
                    uris.append(u)
        for k in n[3]:
            if not isinstance(k, str):
                collect(k)

    collect(node)
    root_uri, _ = split_q(node[1])
    names = ["p", "q", "ns1", "x", "tns", "a"]
    pref = {}
    for i, u in enumerate(uris):
        pref[u] = "xsi" if u == XSI else names[i % len(names)] + (str(i) if i >= len(names) else "")
    out = []

    def has_unqualified(n):
        return any(has_unqualified(k) for k in n[3] if not isinstance(k, str)) or split_q(n[1])[0] is None

    use_default = prefix_style == 0 and root_uri is not None and not has_unqualified(node)

    def qn(q, scope, decls, attr=False):
        u, l = split_q(q)
        if u is None:
            return l
        if use_default and u == root_uri and not attr:
            return l
        if u not in scope:
            scope[u] = pref[u]
            decls.append(f'xmlns:{pref[u]}="{u}"')
        return scope[u] + ":" + l

    def emit(n, scope, ind, top=False):
        scope = dict(scope)
        decls = []
        if top:
            if use_default:
                decls.append(f'xmlns="{root_uri}"')
            if prefix_style == 1:
                for u in uris:
                    if not (use_default and u == root_uri and False):
                        scope[u] = pref[u]
                        decls.append(f'xmlns:{pref[u]}="{u}"')
        tag = qn(n[1], scope, decls)
        ats = []
        for a, v in n[2]:
            if isinstance(v, tuple):
                u, l = split_q(v[1])
                if u is None:
                    v = l
                else:
                    if u not in scope:
                        scope[u] = pref[u]
                        decls.append(f'xmlns:{pref[u]}="{u}"')
                    v = scope[u] + ":" + l
            ats.append(f'{qn(a, scope, decls, True)}="{esc(v, True)}"')
        head = "<" + " ".join([tag] + decls + ats)
        kids = n[3]
        if not kids:
            out.append(head + "/>")
            return
        out.append(head + ">")
        eo = pretty and n[4].get("eo") and all(not isinstance(k, str) for k in kids)
        for k in kids:
            if eo:
                out.append("\n" + ind + "  ")
            if isinstance(k, str):
                out.append(esc(k))
            else:
                emit(k, scope, ind + "  ")
        if eo:
            out.append("\n" + ind)
        out.append(f"</{tag}>")

    emit(node, {}, "", True)
    return "".join(out)


# ============================================================================ validation with lxml (independent)
def compile_schema(texts, entry="main.xsd"):
    """etree.XMLSchema of the entry file; the other files are resolved from memory."""
    class R(etree.Resolver):
        def resolve(self, url, pubid, context):
            import posixpath
            key = posixpath.normpath(url.replace("file:///xv/", "").replace("file:/xv/", ""))
            if key in texts:
                return self.resolve_string(texts[key].encode(), context, base_url="file:///xv/" + key)
            return None

    parser = etree.XMLParser()
    parser.resolvers.add(R())
    doc = etree.parse(io.BytesIO(texts[entry].encode()), parser, base_url="file:///xv/" + entry)
    return etree.XMLSchema(doc)


def validate(schema, doc_text):
    try:
        d = etree.fromstring(doc_text.encode())
    except etree.XMLSyntaxError as e:
        return False, "ill-formed: " + str(e)
    ok = schema.validate(d)
    return ok, ("" if ok else str(schema.error_log.last_error))


def gen_program(rng, ndocs, features=None, attempts=60):
    """(model, texts, docs, regen-statistics).  Schemas lxml refuses (non-deterministic content
    models mostly) are regenerated; a document lxml refuses is a generator bug and is reported."""
    stats = {}
    for _ in range(attempts):
        m = gen_model(rng, features)
        try:
            texts = schema_texts(m)
        except ValueError as e:
            stats[str(e)] = stats.get(str(e), 0) + 1
            continue
        try:
            schema = compile_schema(texts)
        except etree.XMLSchemaParseError as e:
            msg = str(e)
            key = "non-deterministic" if "determinist" in msg else msg[:90]
            stats[key] = stats.get(key, 0) + 1
            continue
        dg = DocGen(m, rng)
        docs, bad = [], []
        for j in range(ndocs):
            style = "min" if j == 0 else ("max" if j == 1 else "rand")
            dg.exotic = j % 5 == 4
            dg.vary = "exotic" if dg.exotic else (j % 3 != 2)
            try:
                doc = dg.document(style, pretty=(j % 4 == 3), prefix_style=j % 3)
            except TooDeep:
                dg.depth = 0
                stats["document too deep"] = stats.get("document too deep", 0) + 1
                continue
            ok, err = validate(schema, doc)
            if ok:
                docs.append(doc)
            else:
                bad.append((doc, err))
        return m, texts, docs, bad, stats
    raise RuntimeError("xsd_gen: no compilable schema after %d attempts: %r" % (attempts, stats))
