"""C11: runs xsdata's generic-element code on a batch of documents (JSON stdin -> JSON stdout).

For every document and both handlers:
  * what the XML library's own iterparse shows of each text/tail at the `end` event
    (observed without xsdata: this is the `visible` oracle of Spec/Infoset.v);
  * TreeParser -> AnyElement tree (+ the events the handler delivered);
  * XmlParser into holder classes with a wildcard field (single / list / mixed /
    compound with a wildcard choice, namespace constraints, optional Attributes map);
  * EventGenerator events for the parsed value, both writers' output, re-parsed with
    two independent parsers (lxml, xml.etree) into a canonical infoset.
"""
import dataclasses
import io
import json
import sys
import warnings
from dataclasses import field
from typing import Dict, List, Optional
from xml.etree import ElementTree as ET
from xml.etree.ElementTree import QName

from lxml import etree as LX

from xsdata.formats.dataclass.context import XmlContext
from xsdata.formats.dataclass.models.generics import AnyElement, DerivedElement
from xsdata.formats.dataclass.parsers import TreeParser, XmlParser
from xsdata.formats.dataclass.parsers.handlers import LxmlEventHandler, XmlEventHandler
from xsdata.formats.dataclass.serializers import XmlSerializer
from xsdata.formats.dataclass.serializers.config import SerializerConfig
from xsdata.formats.dataclass.serializers.mixins import EventGenerator
from xsdata.formats.dataclass.serializers.writers import LxmlEventWriter, XmlEventWriter

HANDLERS = {"native": XmlEventHandler, "lxml": LxmlEventHandler}
WRITERS = [XmlEventWriter, LxmlEventWriter]
NSKW = {"any": "##any", "other": "##other", "local": "##local", "target": "##targetNamespace"}
EVENTS = ("start", "end", "start-ns")


# ------------------------------------------------------------------ holder classes
def make_holder(kind, nsmode, target, amap):
    pid = f"{kind}-{nsmode}-{'a' if target else 'n'}-{int(amap)}"
    fields = []
    if amap:
        fields.append(("attrs", Dict[str, str],
                       field(default_factory=dict, metadata={"type": "Attributes", "namespace": "##any"})))
    if kind == "single":
        fields.append(("w", Optional[object], field(default=None, metadata={"type": "Wildcard", "namespace": NSKW[nsmode]})))
    elif kind == "list":
        fields.append(("w", List[object], field(default_factory=list, metadata={"type": "Wildcard", "namespace": NSKW[nsmode]})))
    elif kind == "mixed":
        fields.append(("w", List[object], field(default_factory=list,
                                                metadata={"type": "Wildcard", "namespace": NSKW[nsmode], "mixed": True})))
    elif kind == "choice":
        fields.append(("w", List[object], field(default_factory=list, metadata={
            "type": "Elements",
            "choices": ({"name": "k", "type": int}, {"wildcard": True, "type": object, "namespace": NSKW[nsmode]})})))
    meta = {"name": "R"}
    if target:
        meta["namespace"] = target
    cls = dataclasses.make_dataclass("Holder_" + pid.replace("-", "_"), fields,
                                     namespace={"Meta": type("Meta", (), meta)}, module=__name__)
    globals()[cls.__name__] = cls
    return pid, cls


HOLDERS = {}
for _k in ("single", "list", "mixed", "choice"):
    for _n in NSKW:
        for _t in (None, "urn:a"):
            for _a in (False, True):
                _pid, _cls = make_holder(_k, _n, _t, _a)
                HOLDERS[_pid] = _cls

# holder classes the context finds by element qname (find_type), used below other holders
NESTED = {}
for _name, _kind, _amap in (("nl", "list", False), ("nm", "mixed", False), ("ns", "single", False), ("na", "list", True)):
    _fields = []
    if _amap:
        _fields.append(("attrs", Dict[str, str],
                        field(default_factory=dict, metadata={"type": "Attributes", "namespace": "##any"})))
    if _kind == "single":
        _fields.append(("w", Optional[object], field(default=None, metadata={"type": "Wildcard", "namespace": "##any"})))
    else:
        _md = {"type": "Wildcard", "namespace": "##any"}
        if _kind == "mixed":
            _md["mixed"] = True
        _fields.append(("w", List[object], field(default_factory=list, metadata=_md)))
    _cls = dataclasses.make_dataclass("Nested_" + _name, _fields, namespace={"Meta": type("Meta", (), {"name": _name})},
                                      module=__name__)
    globals()[_cls.__name__] = _cls
    NESTED[_name] = (_cls, _kind, _amap)

CTX = XmlContext()


def placement_info():
    out = {}
    for pid, cls in HOLDERS.items():
        meta = CTX.build(cls)
        if pid.startswith("choice"):
            comp = meta.choices[0]
            var = comp.wildcards[0]
            typed = list(comp.elements.keys())
            lst = comp.list_element
        else:
            var = meta.wildcards[0]
            typed = []
            lst = var.list_element
        out[pid] = {"rq": meta.qname, "nss": list(var.namespaces), "vq": var.qname, "typed": typed,
                    "list": bool(lst), "mixed": bool(var.mixed), "nillable": bool(var.nillable),
                    "process_contents": var.process_contents, "any_attrs": len(meta.any_attributes)}
    reg = []
    for name, (cls, kind, amap) in NESTED.items():
        meta = CTX.build(cls)
        var = meta.wildcards[0]
        reg.append({"rq": meta.qname, "kind": kind, "nss": list(var.namespaces), "vq": var.qname, "amap": amap, "typed": [],
                    "found": CTX.find_type(meta.qname) is cls, "nillable": bool(var.nillable or meta.nillable)})
    out["__registry__"] = reg
    return out


# ------------------------------------------------------------------ independent infoset
def _node(tag, attrib, decls):
    return {"n": tag, "a": sorted([k, v] for k, v in attrib.items()),
            "d": sorted(([p, u] for p, u in decls), key=lambda pu: (pu[0] is not None, pu[0] or "")),
            "x": "", "k": [], "l": ""}


def infoset_lxml(b):
    root = LX.fromstring(b, LX.XMLParser(remove_comments=False, remove_pis=False, resolve_entities=True,
                                         remove_blank_text=False, huge_tree=True))

    def walk(el, parent_map):
        nsmap = dict(el.nsmap)
        decls = [(p, u) for p, u in nsmap.items() if parent_map.get(p) != u]
        decls += [(p, "") for p in parent_map if p not in nsmap]
        node = _node(el.tag, el.attrib, decls)
        node["x"] = el.text or ""
        last = None
        for ch in el:
            if isinstance(ch.tag, str):
                last = walk(ch, nsmap)
                last["l"] = ch.tail or ""
                node["k"].append(last)
            elif last is None:
                node["x"] += ch.tail or ""
            else:
                last["l"] += ch.tail or ""
        return node

    return walk(root, {})


def infoset_et(b):
    decls_of, pending, root = {}, [], None
    for ev, x in ET.iterparse(io.BytesIO(b), EVENTS):
        if ev == "start-ns":
            pending.append((x[0] or None, x[1]))
        elif ev == "start":
            decls_of[id(x)] = pending
            pending = []
            if root is None:
                root = x

    def walk(el):
        node = _node(el.tag, el.attrib, decls_of.get(id(el), []))
        node["x"] = el.text or ""
        for ch in el:
            k = walk(ch)
            k["l"] = ch.tail or ""
            node["k"].append(k)
        return node

    return walk(root)


def infoset_both(text):
    b = text.encode("utf-8") if isinstance(text, str) else text
    try:
        a = infoset_lxml(b)
        e = infoset_et(b)
    except Exception as ex:  # ill-formed output
        return {"err": type(ex).__name__ + ": " + str(ex)[:200]}
    if a != e:
        return {"err": "independent parsers disagree", "lxml": a, "et": e}
    return {"ok": a}


# ------------------------------------------------------------------ the tokenizer's view
def iterparse_kwargs(module, clsname):
    """keyword arguments of the handler's own `etree.iterparse(source, EVENTS, ...)`
    call, read from the working tree (fail-closed on an unexpected shape)"""
    import ast
    import inspect

    from xsdata.formats.dataclass.parsers.config import ParserConfig

    tree = ast.parse(inspect.getsource(module))
    cls = [n for n in tree.body if isinstance(n, ast.ClassDef) and n.name == clsname]
    calls = [n for n in ast.walk(cls[0]) if isinstance(n, ast.Call) and isinstance(n.func, ast.Attribute)
             and n.func.attr == "iterparse"]
    if len(cls) != 1 or len(calls) != 1 or len(calls[0].args) != 2 or ast.unparse(calls[0].args[1]) != "EVENTS":
        raise SystemExit(f"impl_c11: unexpected iterparse call shape in {clsname}")
    if tuple(getattr(module, "EVENTS")) != EVENTS:
        raise SystemExit(f"impl_c11: {clsname} listens to other events")
    kw = {}
    for k in calls[0].keywords:
        if isinstance(k.value, ast.Constant):
            kw[k.arg] = k.value.value
        elif ast.unparse(k.value) == "self.parser.config." + k.arg:
            kw[k.arg] = getattr(ParserConfig(), k.arg)
        else:
            raise SystemExit(f"impl_c11: cannot evaluate iterparse argument {k.arg} in {clsname}")
    return kw


from xsdata.formats.dataclass.parsers.handlers import lxml as _lxml_mod, native as _native_mod  # noqa: E402

ITERPARSE_KW = {"native": iterparse_kwargs(_native_mod, "XmlEventHandler"),
                "lxml": iterparse_kwargs(_lxml_mod, "LxmlEventHandler")}


def observe(handler, b):
    """length of element.text / element.tail at each `end` event of the library's own
    iterparse, called the way the xsdata handler calls it"""
    if handler == "native":
        ctx = ET.iterparse(io.BytesIO(b), EVENTS, **ITERPARSE_KW["native"])
    else:
        ctx = LX.iterparse(io.BytesIO(b), EVENTS, **ITERPARSE_KW["lxml"])
    out, counters, paths = [], [0], []
    for ev, el in ctx:
        if ev == "start":
            idx = counters[-1]
            counters[-1] += 1
            path = ([idx] + paths[-1]) if paths else []
            paths.append(path)
            counters.append(0)
        elif ev == "end":
            path = paths.pop()
            counters.pop()
            out.append([path, None if el.text is None else len(el.text), None if el.tail is None else len(el.tail)])
            el.clear()
    return out


# ------------------------------------------------------------------ exporters
def exp_prim(v):
    if isinstance(v, bool):
        return {"b": v}
    if isinstance(v, int):
        return {"i": str(v)}
    if isinstance(v, str):
        return {"s": v}
    return {"other": repr(v)[:80]}


def exp_val(v):
    if isinstance(v, AnyElement):
        return {"t": "any", "q": v.qname, "x": v.text, "l": v.tail, "k": [exp_val(c) for c in v.children],
                "a": [[k, x] for k, x in v.attributes.items()]}
    if isinstance(v, DerivedElement):
        p = exp_prim(v.value)
        if v.type is not None or "other" in p:
            return {"t": "other", "r": repr(v)[:120]}
        return {"t": "d", "q": v.qname, "v": p}
    if v is None or isinstance(v, str):
        return {"t": "s", "v": v}
    for name, (cls, kind, amap) in NESTED.items():
        if type(v) is cls:
            return {"t": "h", "c": name, "a": [[k, x] for k, x in getattr(v, "attrs", {}).items()], "w": exp_w(v.w)}
    return {"t": "other", "r": repr(v)[:120]}


def exp_w(w):
    if isinstance(w, (list, tuple)):
        return {"many": [exp_val(x) for x in w]}
    if w is None:
        return {"none": True}
    return {"one": exp_val(w)}


def exp_events(evs):
    out = []
    for name, *args in evs:
        if name == "attr":
            k, v = args
            if isinstance(v, QName):
                out.append(["attr", k, {"q": v.text}])
            elif isinstance(v, str):
                out.append(["attr", k, {"s": v}])
            else:
                out.append(["attr", k, {"other": repr(v)[:80]}])
        elif name == "data":
            d = args[0]
            out.append(["data", None if d is None else exp_prim(d)])
        else:
            out.append([name, args[0]])
    return out


class RecordingTreeParser(TreeParser):
    def start(self, clazz, queue, objects, qname, attrs, ns_map):
        self.rec.append(["start", qname, [[k, v] for k, v in dict(attrs).items()],
                         [[p, u] for p, u in dict(ns_map).items()]])
        super().start(clazz, queue, objects, qname, attrs, ns_map)

    def end(self, queue, objects, qname, text, tail):
        self.rec.append(["end", qname, text, tail])
        return super().end(queue, objects, qname, text, tail)


def write_events(events, writer, ns_map=None):
    out = io.StringIO()
    w = writer(config=SerializerConfig(), output=out, ns_map=dict(ns_map or {}))
    w.write(iter(events))
    return out.getvalue()


def run_one(b, handler, pid, ns_maps=()):
    res = {"handler": handler, "pid": pid}
    with warnings.catch_warnings(record=True) as wlist:
        warnings.simplefilter("always")
        try:
            if pid is None:
                p = RecordingTreeParser(handler=HANDLERS[handler])
                p.rec = []
                obj = p.from_bytes(b)
                res["events"] = p.rec
                res["parse"] = {"tree": exp_val(obj)}
            else:
                obj = XmlParser(handler=HANDLERS[handler], context=CTX).from_bytes(b, HOLDERS[pid])
                res["parse"] = {"obj": {"attrs": [[k, v] for k, v in getattr(obj, "attrs", {}).items()], "w": exp_w(obj.w)}}
        except Exception as ex:
            res["parse"] = {"err": type(ex).__name__, "msg": str(ex)[:160]}
            res["warnings"] = [str(w.message)[:100] for w in wlist][:4]
            return res
    res["warnings"] = [str(w.message)[:100] for w in wlist][:4]
    try:
        if pid is None:
            gen = EventGenerator(context=CTX)
            var = CTX.build(HOLDERS["single-any-n-0"]).wildcards[0]
            events = list(gen.convert_any_element(obj, var, None))
        else:
            events = list(XmlSerializer(context=CTX).generate(obj))
        res["wev"] = exp_events(events)
    except Exception as ex:
        res["wev_err"] = type(ex).__name__ + ": " + str(ex)[:160]
        return res
    outs = []
    for wr in WRITERS:
        try:
            if pid is None:
                text = write_events(events, wr)
            else:
                text = XmlSerializer(context=CTX, writer=wr).render(obj)
            outs.append(infoset_both(text))
            if "err" in outs[-1]:
                outs[-1]["text"] = text[:400]
        except Exception as ex:
            outs.append({"err": "write: " + type(ex).__name__ + ": " + str(ex)[:160]})
    res["outs"] = outs
    # the same value under user supplied prefix maps (a fresh dict per call: the writer mutates it)
    outs_ns = []
    for pairs in ns_maps:
        user = {p: u for p, u in pairs}
        for wr in WRITERS:
            try:
                if pid is None:
                    text = write_events(events, wr, user)
                else:
                    text = XmlSerializer(context=CTX, writer=wr).render(obj, ns_map=dict(user))
                o = infoset_both(text)
                if "err" in o:
                    o["text"] = text[:400]
            except Exception as ex:
                o = {"err": "write: " + type(ex).__name__ + ": " + str(ex)[:160]}
            o["ns_map"] = [list(x) for x in pairs]
            o["writer"] = wr.__name__
            outs_ns.append(o)
    res["outs_ns"] = outs_ns
    return res


def main():
    req = json.load(sys.stdin)
    out = {"placements": placement_info(), "results": []}
    for doc in req["docs"]:
        b = doc["xml"].encode("utf-8")
        r = {"input": infoset_both(b), "vis": {}, "runs": []}
        for h in doc.get("handlers", ["native", "lxml"]):
            r["vis"][h] = observe(h, b)
            if doc.get("tree", True):
                r["runs"].append(run_one(b, h, None, doc.get("ns_maps", ())))
            for pid in doc.get("placements", []):
                r["runs"].append(run_one(b, h, pid, doc.get("ns_maps", ())))
        out["results"].append(r)
    json.dump(out, sys.stdout)


main()
