"""C19 — a shared binding context is safe under concurrent use.

Deciding artefact: theorems of coq/Properties/C19.v over Model/Sched.v (every method of
XmlContext cut into atomic actions = marked source lines; thread programs; schedules).
Tie: the model's schedules are REPLAYED on the implementation by a sys.settrace
line-level scheduler (harness/sched_trace.py, no source hooks) that parks every thread
before each marked line of context.py, located by function name and line TEXT (fail
closed); compared per case: every thread's result, the result of the same call run
alone, and the sequence of executed marked lines (thread, label).
Search: random schedules on cold and warm contexts with 2-16 threads, the witness of the
refutation lemma, and an un-forced 16-thread stress with a tiny switch interval.
"""
import json
import os

import c14
import common
from common import Check, run_impl, standard_proof_step, TRUSTED_COMMON
from coqterm import clist

MARKS = {
    1: ("build", "if clazz not in self.cache:"),
    2: ("build", "self.cache[clazz] = builder.build(clazz, parent_ns)"),
    3: ("build", "return self.cache[clazz]"),
    4: ("build_xsi_cache", "if len(sys.modules) == self.sys_modules:"),
    5: ("build_xsi_cache", "self.xsi_cache = index"),
    7: ("build_xsi_cache", "self.sys_modules = len(sys.modules)"),
    8: ("find_types", "if qname in self.xsi_cache:"),
    9: ("find_types", "return self.xsi_cache[qname]"),
    12: ("local_names_match", "if clazz in self.unsupported:"),
    13: ("local_names_match", "self.unsupported.add(clazz)"),
    14: ("get_field_diff", "meta = self.cache[clazz]"),
    15: ("build_recursive", "if clazz not in self.cache:"),
}
# lines that must NOT come back: the in-place rebuild fixed by /repo ece294b
FORBIDDEN = [("build_xsi_cache", "self.xsi_cache.clear()", "cold-index-race", "ece294b"),
             ("build_xsi_cache", "self.xsi_cache[meta.target_qname].append(clazz)", "cold-index-race", "ece294b"),
             # the in-place pruning fixed by /repo c28ded8
             ("local_names_match", "self.xsi_cache[target_qname].remove(clazz)", "concurrent-prune-value-error", "c28ded8")]

# what XmlContext keeps (slots) and every statement of context.py that stores into it: the model's actions and
# C14's step functions cover exactly these; anything else is a change the model does not know (fail closed)
CONFIG_SLOTS = {"attribute_name_generator", "class_type", "element_name_generator", "models_package"}
STATE_SLOTS = {"cache", "xsi_cache", "sys_modules", "unsupported"}
EXPECTED_CONTEXT_STORES = {
    ("reset", "self.cache.clear()"), ("reset", "self.xsi_cache.clear()"), ("reset", "self.unsupported.clear()"),
    ("reset", "self.sys_modules = 0"), ("build_xsi_cache", "self.xsi_cache = index"),
    ("build_xsi_cache", "self.sys_modules = len(sys.modules)"),
    ("build", "self.cache[clazz] = builder.build(clazz, parent_ns)"), ("local_names_match", "self.unsupported.add(clazz)"),
}


def context_state_tie(ck):
    """static tie: the slots of XmlContext and the statements that store into its state are the modelled ones"""
    import ast
    import sched_trace
    path = os.path.join(common.REPO, "xsdata/formats/dataclass/context.py")
    tree = ast.parse(open(path, encoding="utf-8").read())
    slots = None
    for node in ast.walk(tree):
        if isinstance(node, ast.ClassDef) and node.name == "XmlContext":
            for st in node.body:
                if isinstance(st, ast.Assign) and getattr(st.targets[0], "id", None) == "__slots__":
                    slots = set(ast.literal_eval(st.value))
    if slots is None:
        ck.failure("corr-unmodelled-state", "XmlContext.__slots__ not found: the context may hold state the model does not know",
                   {"file": path})
        return
    extra = slots - CONFIG_SLOTS - STATE_SLOTS
    if extra:
        ck.failure("corr-unmodelled-state", f"XmlContext has state the model does not know: slots {sorted(extra)}",
                   {"slots": sorted(slots)})
    _, stores = sched_trace.locate_stores(path, exclude=("__init__",))
    unknown = sorted(set(stores) - EXPECTED_CONTEXT_STORES)
    if unknown:
        ck.failure("corr-unmodelled-state", "context.py stores into state of the context in statements the model does not "
                   f"know: {unknown}", {"unknown": unknown})


SUPPORTED_CALLS = ("build", "fetch", "find_type", "find_types", "find_subclass", "find_type_by_fields", "local_names_match", "build_recursive")


def supported(op):
    k = op["kind"]
    if k in ("ser", "enc", "jser", "parse"):
        return not op["needs"]
    if k in ("dec", "jparse"):
        # untyped / typed dict decoding; not the ones that go through bind_best_dataclass (a set of
        # candidate classes is iterated in address order there)
        return not op["needs"] and "Holder" not in op["tag"]
    if k == "call":
        return op["name"] in SUPPORTED_CALLS and not op["needs"]
    return False


# thread sets whose requests are ns-closed (every class is reached under one parent namespace)
CLOSED_SETS = [
    ["ser:PA", "parse:PA", "parse-auto:PA", "find_type:Leaf", "ser:Own", "parse-auto:Own", "ser:Holder", "parse:Holder",
     "find_type:{urn:h}Base", "find_subclass:Base,Der2", "fetch:Base,xsi=Der2", "parse:Holder-xsi-Ext",
     "find_type:{urn:h}Ext", "parse:nobody", "ser:Broken", "build:Broken", "parse:PA-cut5", "parse-auto:Ext",
     "find_types:Leaf", "ser:Tgt", "parse-auto:Tgt", "find_type:{urn:none}Nobody", "parse:PA-as-PB"],
    ["jser:Leaf", "ser:Leaf", "parse:Leaf", "parse-auto:Leaf", "ser:Mid", "parse:Mid", "jser:Mid", "jser:Own", "ser:Own",
     "find_type:{urn:o}Own", "parse:Wild", "ser:Wild", "find_type:XmlParser", "build:Leaf,None"],
    # untyped dict/JSON decoding (find_type_by_fields builds every class under no parent namespace)
    ["dec-auto:x", "dec-auto:x", "dec-auto:nomatch", "jparse-auto:PA", "jparse:PA", "jparse:Leaf", "jser:Leaf", "jser:PA",
     "dec:unknown-key", "by_fields:x", "by_fields:y", "names_match:Broken", "names_match:Leaf", "find_type:Leaf",
     "find_type:{urn:k}Broken", "build:Leaf,None", "ser:Leaf", "parse:Leaf", "ser:Own", "parse-auto:Own", "dec:Own",
     "dec-auto:Own", "dec-auto:Tgt"],
]


def c_ccase(ops_i, warm, threads, sched, results, solo, log, rint):
    ol = lambda l: clist([f"op_{i}" for i in l], str, "op")   # noqa: E731
    rl = lambda l: clist([rint(c14.c_res(r)) for r in l], str, "res")   # noqa: E731
    return (f"(mkCC W0 {ol(warm)} {ol(threads)} {clist([f'{i}%nat' for i in sched], str, 'nat')} {rl(results)} {rl(solo)} "
            + clist([f"({a}%nat, {b}%nat)" for a, b in log], str, "(nat * nat)") + ")")


def run(ck: Check):
    ck.level = "proof"
    obligations, discharged, axioms = standard_proof_step(ck, extra_targets=["Model/ContextCorr.vo"])
    r = ck.rng

    # ---- the pool of C14 (documents from fresh serializations), restricted to the operations whose
    #      context calls are cut into atomic actions
    names = list(c14.VALUES)
    p1_ops = [{"kind": "ser", "value": c14.VALUES[n]} for n in names] + [{"kind": "enc", "value": c14.VALUES[n]} for n in names]
    p1_seqs = [[{"env": "define", "cid": c, "bump": True} for c in c14.NEEDS.get(names[i % len(names)], ())] + [{"op": i}]
               for i in range(len(p1_ops))]
    p1 = run_impl("impl_c14.py", {"static": c14.STATIC, "dynamic": c14.DYNAMIC, "ops": p1_ops, "seqs": p1_seqs})
    fresh_ser = {n: p1["runs"][i][-1]["fresh"] for i, n in enumerate(names)}
    fresh_enc = {n: p1["runs"][len(names) + i][-1]["fresh"] for i, n in enumerate(names)
                 if n in ("PA", "Leaf", "Own", "Mid", "Tgt", "PB")}
    ops_all = c14.build_ops(ck, fresh_ser, fresh_enc)
    ops = [o for o in ops_all if supported(o)]
    n_model = len(ops)          # operations the interleaving model covers; the rest only run in the model-free modes
    extra_tags = ("dec:Holder-der", "odec:Num-abc", "odecs:Num-abc", "oparse:Num-abc", "oparse:UHolder-alpha",
                  "oparse:UHolder-fail", "oser:CmpintFirst:conv-non", "odecs:CmpintFirst:non-conv", "oparse:Bag-both:native")
    ops += [o for o in ops_all if o["tag"] in extra_tags]
    by_tag = {o["tag"]: i for i, o in enumerate(ops)}
    context_state_tie(ck)
    n_index = len(c14.STATIC) + 18      # refined below from the implementation's answer

    def gen_runs(n_index):
        runs, kinds = [], {"witness": 0, "cold": 0, "warm": 0, "many-threads": 0, "mixed": 0}
        ft = by_tag["find_type:Leaf"]
        # the schedule of the former cold-index race (C19_former_race_schedule_harmless): A passes the
        # currency check and stops before publishing, R rebuilds completely and is about to look the qname
        # up, A publishes, R looks up
        pr = by_tag["parse-auto:PA"]
        for t in (ft, pr, by_tag["parse:Holder"]):
            runs.append({"warm": [], "threads": [t, t], "schedule": [0, 1, 1, 1, 0, 1, 1]})
            kinds["witness"] += 1
        # the schedule of the former ValueError of local_names_match (/repo c28ded8): both threads fail to build
        # the first unbuildable class of the index before either records it
        dx = by_tag["dec-auto:x"]
        runs.append({"warm": [], "threads": [dx, dx], "schedule": [0] * 5 + [1] * 5 + [0, 1] * 4})
        kinds["witness"] += 1
        # build_recursive stops at a class another thread has cached (C19_build_recursive_concurrent_refuted)
        runs.append({"warm": [], "threads": [by_tag["build_recursive:Dep"], by_tag["ser:Dep"]], "schedule": [1, 1, 1]})
        kinds["witness"] += 1
        # the concurrent form of the cache-key defect
        runs.append({"warm": [ft], "threads": [by_tag["ser:PA"], by_tag["ser:PB"]], "schedule": [0, 0, 0, 0, 1, 1, 1, 1, 1, 0]})
        kinds["witness"] += 1
        # the thread set of the un-forced stress, run one after the other: the model must put it inside the guard
        runs.append({"warm": [], "threads": stress_threads, "schedule": []})
        kinds["witness"] += 1
        sets = [[by_tag[t] for t in s if t in by_tag] for s in CLOSED_SETS]
        for k in range(ck.n(200, 20000)):
            mode = r.random()
            pool = r.choice(sets) if mode < 0.85 else list(range(n_model))
            if mode >= 0.85:
                kinds["mixed"] += 1
            nthreads = r.choice([2, 2, 2, 3, 3, 4]) if r.random() < 0.9 else r.randint(5, 16)
            if nthreads > 4:
                kinds["many-threads"] += 1
            threads = [r.choice(pool) for _ in range(nthreads)]
            cold = r.random() < 0.6
            warm = [] if cold else [r.choice([ft, by_tag["ser:PA"], by_tag["parse-auto:Own"]])
                                    for _ in range(r.randint(1, 2))]
            kinds["cold" if cold else "warm"] += 1
            sched = []
            budget = nthreads * 16
            while len(sched) < budget:
                t = r.randrange(nthreads)
                sched += [t] * r.choice([1, 1, 1, 2, 2, 3, 4])
            runs.append({"warm": warm, "threads": threads, "schedule": sched[:budget]})
        return runs, kinds

    strip = [{k: v for k, v in o.items() if k not in ("events", "tag", "needs")} for o in ops]
    payload = {"static": c14.STATIC, "dynamic": [], "ops": strip, "marks": {str(k): list(v) for k, v in MARKS.items()},
               "step_timeout": 20.0}
    import re as _re
    src_ctx = open(os.path.join(common.REPO, "xsdata/formats/dataclass/context.py"), encoding="utf-8").read()
    for fn, text, cls_, fixed_in in FORBIDDEN:
        body = _re.search(r"def %s\(.*?(?=\n    def |\Z)" % fn, src_ctx, _re.S)
        if body and any(line.strip() == text for line in body.group(0).splitlines()):
            ck.failure(cls_, f"{fn} again contains `{text}`: the shared index is mutated in place under the eyes of other "
                       f"threads (regression of /repo {fixed_in})", {"function": fn, "line": text})
    probe = run_impl("impl_c19.py", dict(payload, runs=[]), timeout=300)
    if "mark_error" in probe:
        # the schedules cannot be replayed; still look for a concrete failing call without the scheduler
        names_ = ("parse-auto:PA", "find_type:Leaf", "parse:Holder", "parse-auto:Own", "ser:Own", "ser:PA", "parse:PA",
                  "find_subclass:Base,Der2")
        st = run_impl("impl_c19.py", dict(payload, runs=[], stress={"rounds": ck.n(60, 2000),
                                                                   "threads": [by_tag[t] for t in names_] * 2}),
                      timeout=900)["stress"]
        # ... and with forced yield points on EVERY line of context.py / models/elements.py / parsers/dict.py (no marks, no
        # model needed: the oracle is the solo result) over thread pairs that are ns-closed on the unchanged tree
        fb_pairs = [("dec-auto:x", "find_type:{urn:none}Nobody"), ("dec-auto:x", "parse:nobody"), ("by_fields:x", "find_type:{urn:none}Nobody"),
                    ("jparse-auto:PA", "find_type:{urn:none}Nobody"), ("dec-auto:x", "dec-auto:x"), ("parse-auto:PA", "find_type:Leaf"),
                    ("parse:Holder", "parse:Holder-xsi-Ext"), ("ser:PA", "parse:PA"), ("dec-auto:Own", "find_types:Leaf"),
                    ("parse-auto:Own", "ser:Own"), ("find_type:Leaf", "find_type:Leaf"), ("parse:Holder", "find_subclass:Base,Der2"),
                    ("dec-auto:x", "by_fields:y"), ("parse-auto:Tgt", "find_type:{urn:h}Base")]
        fb_sets = [[by_tag[a], by_tag[b]] for a, b in fb_pairs if a in by_tag and b in by_tag]
        fb_sets += [fs + [fs[0]] for fs in fb_sets[:6]]
        fb_runs = [{"warm": warm, "threads": fs, "seed": r.randrange(1 << 30)}
                   for fs in fb_sets for warm in ([], [by_tag["find_type:Leaf"]]) for _ in range(ck.n(6, 40))]
        nproc = ck.n(6, 12)
        import concurrent.futures as cf
        with cf.ThreadPoolExecutor(max_workers=nproc) as ex:
            fouts = list(ex.map(lambda k: run_impl("impl_c19.py", dict(payload, runs=[], free_runs=fb_runs[k::nproc]), timeout=1800)["free"],
                                range(nproc)))
        found = 0
        for k, fo in enumerate(fouts):
            for fr, out in zip(fb_runs[k::nproc], fo):
                what = f"threads {[ops[t]['tag'] for t in fr['threads']]} after {[ops[t]['tag'] for t in fr['warm']]} (seed {fr['seed']})"
                if out["status"] == "ok" and out["results"] != out["solo"] and found < 3:
                    found += 1
                    bad = [i for i, (a, b) in enumerate(zip(out["results"], out["solo"])) if a != b][0]
                    ck.failure("concurrent-difference-inside-guard",
                               "forced yield points on every line of context.py / models/elements.py / parsers/dict.py: a thread's result "
                               f"differs from its solo run: {what}: {out['results'][bad]} vs {out['solo'][bad]}",
                               {"run": {"warm": [ops[t]["tag"] for t in fr["warm"]], "threads": [ops[t]["tag"] for t in fr["threads"]],
                                        "seed": fr["seed"]}, "results": out["results"], "solo": out["solo"]})
        if st.get("mismatches"):
            m = st["mismatches"][0]
            ck.failure("cold-index-race", "un-forced 16-thread stress on a cold context: a call differs from its solo result "
                       f"({ops[m['op']]['tag']}: {m['got']} vs {m['solo']})", {"stress": st})
        ck.cov["evaluations"] = sum(len(fr["threads"]) for fr in fb_runs)
        ck.notes.append("marked lines not found (" + probe["mark_error"] + f"); model-free search: {len(fb_runs)} forced-yield runs, "
                        f"{found}+ mismatching, un-forced stress mismatches: {len(st.get('mismatches') or [])}")
        # the tie between the interleaving model and context.py no longer checks (reported with no-failing-input-found
        # unless the search above produced a concrete schedule)
        ck.broken_obligation("corr-marked-lines", "a source line the model's atomic actions are mapped to was not found: "
                             + probe["mark_error"] + "\nmarks: " + json.dumps({str(k): list(v) for k, v in MARKS.items()}))
        return ck.finish(obligations=obligations, discharged=discharged, checker_cmd="coqc", trusted_base=TRUSTED_COMMON)
    n_index = len(probe["order"])
    stress_threads = [by_tag[t] for t in ("parse-auto:PA", "find_type:Leaf", "parse:Holder", "parse-auto:Own", "ser:Own",
                                          "find_type:{urn:h}Base", "parse-auto:Tgt", "find_subclass:Base,Der2")] * 2
    # a second stress set: untyped dict/JSON decoding (find_type_by_fields / local_names_match) with typed JSON work
    stress_threads2 = [by_tag[t] for t in ("dec-auto:x", "jparse-auto:PA", "dec-auto:nomatch", "jser:PA", "by_fields:y",
                                           "names_match:Broken", "find_type:{urn:k}Broken", "dec-auto:Own")] * 2
    stress_sets = [stress_threads, stress_threads2]
    runs, kinds = gen_runs(n_index)
    runs.append({"warm": [], "threads": stress_threads2, "schedule": []})
    kinds["witness"] += 1
    # ---- forced yield points on EVERY line of the XmlMeta / XmlVar methods (models/elements.py), no model of
    #      those lines: lazily built per-metadata state (memos, sorted field lists ...) must never be observed
    #      half-built; oracle = the solo result; thread sets are ns-closed by construction (checked by the model
    #      on a sequential run of the same set)
    free_ops = ["ser:WildMid", "parse:WildMid", "parse:WildO-other", "parse:WildT-a", "ser:Wild", "parse:Wild", "ser:PA",
                "parse:PA", "parse-auto:PA", "ser:Holder", "parse:Holder", "jser:PA", "dec-auto:x", "ser:PC"]
    free_sets = [[by_tag[t]] * n for t in free_ops if t in by_tag for n in (2, 3)]
    free_sets += [[by_tag[a], by_tag[b]] for a, b in (("ser:WildMid", "parse:WildMid"), ("ser:PA", "parse:PA"),
                                                      ("ser:Holder", "parse:Holder"))]
    # thread sets with operations outside the interleaving model (bind_best_dataclass, unions, compound fields, lenient
    # conversion through shared decoder / parser configs): ns-closed by construction, oracle = solo result + unchanged
    # shared configuration objects
    trusted_sets = [[by_tag[a], by_tag[b]] for a, b in (
        ("dec:Holder-der", "odec:Num-abc"), ("odec:Num-abc", "dec:Holder-der"), ("dec:Holder-der", "dec:Holder-der"),
        ("oparse:UHolder-fail", "oparse:Num-abc"), ("oparse:UHolder-alpha", "oparse:Num-abc"),
        ("oser:CmpintFirst:conv-non", "oser:CmpintFirst:conv-non"), ("odecs:CmpintFirst:non-conv", "odecs:Num-abc"),
        ("oparse:Bag-both:native", "oparse:Bag-both:native")) if a in by_tag and b in by_tag]
    free_sets += trusted_sets
    free_runs, free_guard_case = [], {}
    for fs in free_sets:
        for warm in ([], [by_tag["find_type:Leaf"]]):
            if all(t < n_model for t in fs):
                free_guard_case[(tuple(warm), tuple(fs))] = len(runs)
                runs.append({"warm": warm, "threads": fs, "schedule": []})
            else:
                free_guard_case[(tuple(warm), tuple(fs))] = "trusted"
            for _ in range(ck.n(3, 15)):
                free_runs.append({"warm": warm, "threads": fs, "seed": r.randrange(1 << 30)})
    kinds["free-line"] = len(free_runs)
    # systematic two-thread exploration restricted to the self-mutating methods of XmlMeta / XmlVar
    sys_pairs = [("parse:WildO-other", "parse:WildO-local"), ("parse:WildO-other", "parse:WildO-other"),
                 ("parse:WildT-a", "parse:WildT-z"), ("parse:WildMid", "parse:WildMid"), ("ser:WildMid", "ser:WildMid"),
                 ("ser:WildMid", "parse:WildMid"), ("parse:Wild", "parse:Wild"), ("ser:PA", "ser:PA"), ("parse:PA", "ser:PA"),
                 ("ser:Holder", "ser:Holder"), ("jser:PA", "jser:PA")]
    sys_pairs += [("parse:Holder", "parse:Holder"), ("parse:Holder", "parse:Holder-xsi-Ext"), ("dec-auto:x", "dec-auto:x")]
    sys_runs = []
    sys_sets = [([by_tag[a], by_tag[b]], None) for a, b in sys_pairs if a in by_tag and b in by_tag]
    sys_sets += [(fs, None) for fs in trusted_sets]
    # a context that remembers an xsi:type substitution (or anything else a method may memoise) from earlier calls
    sys_sets += [([by_tag["parse:Holder"], by_tag["parse:Holder"]], [by_tag["parse:Holder-xsi-Ext"]]),
                 ([by_tag["parse:Holder-xsi-Ext"], by_tag["parse:Holder"]], [by_tag["parse:Holder"]])]
    for fs, warm_ in sys_sets:
        for warm in ([warm_] if warm_ is not None else [[], [by_tag["find_type:Leaf"]]]):
            if (tuple(warm), tuple(fs)) not in free_guard_case:
                if all(t < n_model for t in fs):
                    free_guard_case[(tuple(warm), tuple(fs))] = len(runs)
                    runs.append({"warm": warm, "threads": fs, "schedule": []})
                else:
                    free_guard_case[(tuple(warm), tuple(fs))] = "trusted"
            sys_runs.append({"warm": warm, "threads": fs, "seed": r.randrange(1 << 30), "max": ck.n(120, 500)})
    kinds["systematic-sets"] = len(sys_runs)
    nproc = ck.n(6, 12)
    chunks = [runs[i::nproc] for i in range(nproc)]
    import concurrent.futures as cf
    with cf.ThreadPoolExecutor(max_workers=nproc) as ex:
        outs = list(ex.map(lambda a: run_impl("impl_c19.py", dict(payload, runs=a[1], free_runs=free_runs[a[0]::nproc], sys_runs=sys_runs[a[0]::nproc],
                                                                 stress={"rounds": ck.n(40, 2000), "threads": stress_sets[a[0]],
                                                                         "warm": [by_tag["find_type:Leaf"]]}
                                                                 if a[0] < 2 else None), timeout=2400),
                           enumerate(chunks)))
    res_runs = [None] * len(runs)
    for k, o in enumerate(outs):
        for j, rr in enumerate(o["runs"]):
            res_runs[k + j * nproc] = rr
    free_res = [None] * len(free_runs)
    for k, o in enumerate(outs):
        for j, rr in enumerate(o["free"]):
            free_res[k + j * nproc] = rr
    sys_res = [None] * len(sys_runs)
    for k, o in enumerate(outs):
        for j, rr in enumerate(o["systematic"]):
            sys_res[k + j * nproc] = rr
    order, ambient = outs[0]["order"], {a["cid"]: a for a in outs[0]["ambient"]}

    # ---- Gallina
    classes = [c14.c_class(c14.ALL[c]) if c in c14.ALL else c14.c_ambient(ambient[c]) for c in order]
    defs = [f"Definition W0 : world := mkW {clist(classes, str, 'cdesc')} {outs[0]['modules0']}%N."]
    for i, o in enumerate(ops[:n_model]):
        defs.append(f"Definition op_{i} : op := {c14.c_op(o)}.")
    rint = c14.Interner("r_", "res")
    cases, idx = [], []
    for i, (run_, out) in enumerate(zip(runs, res_runs)):
        if out["status"] != "ok":
            ck.failure("scheduler-timeout", f"the replay of a schedule did not terminate: {out['status']}",
                       {"run": run_, "tags": [ops[t]["tag"] for t in run_["threads"]], "log": out["log"][-40:]})
            continue
        cases.append(c_ccase(ops, run_["warm"], run_["threads"], run_["schedule"], out["results"], out["solo"],
                             out["log"], rint))
        idx.append(i)
    summ = c14.coq_summaries("c19", "\n".join(defs + rint.defs), cases, shard=max(16, len(cases) // 64), fn="ccase_summary", ctype="ccase")

    ck.cov["evaluations"] = sum(len(runs[i]["threads"]) for i in idx)
    stats = {"cases": len(cases), "differing": 0, "guarded": 0, "cold": 0, "ns_concurrent": 0,
             "steps_replayed": sum(len(res_runs[i]["log"]) for i in idx)}
    distinct = set()

    def replay(i):
        run_, out = runs[i], res_runs[i]
        return {"warm": [ops[t]["tag"] for t in run_["warm"]], "threads": [ops[t]["tag"] for t in run_["threads"]],
                "schedule": run_["schedule"], "results": out["results"], "solo": out["solo"], "log": out["log"]}

    for k in sorted(range(len(idx)), key=lambda k: (len(runs[idx[k]]["threads"]), len(runs[idx[k]]["schedule"]))):
        i, s = idx[k], summ[k]
        run_ = runs[i]
        distinct.add((tuple(run_["warm"]), tuple(run_["threads"]), tuple(run_["schedule"])))
        what = f"threads {[ops[t]['tag'] for t in run_['threads']]} after {[ops[t]['tag'] for t in run_['warm']]} (cold if empty)"
        if not s & 1:
            ck.failure("corr-sched", "model and implementation disagree (a thread's result, a solo result, or the sequence of "
                       "executed marked lines): " + what, replay(i))
            continue
        if s & 16:
            stats["guarded"] += 1
        if s & 8:
            stats["differing"] += 1
        if not s & 2:
            ck.failure("concurrent-difference-inside-guard", "a thread's result differs from its solo run although the context "
                       "was requests ns-closed (guard of context_safe): " + what, replay(i))
            continue
        if not s & 4:
            ck.failure("concurrent-difference-unexplained", "a thread's result differs from its solo run and the model does not "
                       "reproduce it: " + what, replay(i))
            continue
        if s & 128:
            ck.failure("build-recursive-skips-cached-concurrent", "build_recursive stopped at a class another thread had "
                       "cached and missed the unbuildable class below it: " + what, replay(i))
        elif s & 64:
            stats["ns_concurrent"] += 1
            ck.failure("ns-cache-key-concurrent", "two threads requested one class under different parent namespaces: " + what,
                       replay(i))
        if s & 32:
            stats["cold"] += 1
    # forced yield points on every line of models/elements.py
    pos = {i: k for k, i in enumerate(idx)}

    def inside_guard(key):
        gi = free_guard_case[key]
        return gi == "trusted" or (gi in pos and bool(summ[pos[gi]] & 16))

    stats["free_runs"], stats["free_steps"], stats["free_mismatch_outside_guard"] = len(free_runs), 0, 0
    for fr, out in zip(free_runs, free_res):
        what = f"threads {[ops[t]['tag'] for t in fr['threads']]} after {[ops[t]['tag'] for t in fr['warm']]} (seed {fr['seed']})"
        if out["status"] != "ok":
            ck.failure("scheduler-timeout", "a forced-yield run did not terminate: " + out["status"] + " " + what, {"run": fr})
            continue
        stats["free_steps"] += out["steps"]
        if out.get("inst_changed"):
            ck.failure("instance-attribute-changed", "after a concurrent run a configuration object / attribute of a shared "
                       "parser, serializer or decoder is not what it was before: " + what, {"run": fr})
        if out["results"] != out["solo"]:
            if inside_guard((tuple(fr["warm"]), tuple(fr["threads"]))):
                bad = [k for k, (a, b) in enumerate(zip(out["results"], out["solo"])) if a != b][0]
                ck.failure("concurrent-difference-inside-guard",
                           "forced yield points on every line of XmlMeta/XmlVar (models/elements.py): a thread's result differs "
                           f"from its solo run: {what}: {out['results'][bad]} vs {out['solo'][bad]}",
                           {"run": {"warm": [ops[t]["tag"] for t in fr["warm"]], "threads": [ops[t]["tag"] for t in fr["threads"]],
                                    "seed": fr["seed"]}, "results": out["results"], "solo": out["solo"]})
            else:
                stats["free_mismatch_outside_guard"] += 1
                ck.notes.append("free-line mismatch outside the guard: " + what)
    # systematic exploration of the self-mutating methods of XmlMeta / XmlVar
    stats["systematic_schedules"] = 0
    stats["mutating_methods"] = outs[0].get("mutators")
    for sr, out in zip(sys_runs, sys_res):
        what = f"threads {[ops[t]['tag'] for t in sr['threads']]} after {[ops[t]['tag'] for t in sr['warm']]}"
        if out["status"] != "ok":
            ck.failure("scheduler-timeout", "a systematic run did not terminate: " + out["status"] + " " + what, {"run": sr})
            continue
        stats["systematic_schedules"] += out["explored"]
        if out.get("inst_changed"):
            ck.failure("instance-attribute-changed", "after a concurrent run a configuration object / attribute of a shared "
                       f"parser, serializer or decoder is not what it was before: {what}, schedule {out['inst_changed'][0]}",
                       {"run": sr, "schedules": out["inst_changed"]})
        if out["bad"]:
            if inside_guard((tuple(sr["warm"]), tuple(sr["threads"]))):
                b0 = out["bad"][0]
                ck.failure("concurrent-difference-inside-guard",
                           "yield points around every store into shared objects (context, XmlMeta/XmlVar, decoder: lazily built "
                           f"or temporarily changed state observed): {what}, schedule {b0['schedule']}: {b0['results']} vs solo {out['solo']}",
                           {"run": {"warm": [ops[t]["tag"] for t in sr["warm"]], "threads": [ops[t]["tag"] for t in sr["threads"]]},
                            "bad": out["bad"], "solo": out["solo"], "mutating_methods": outs[0].get("mutators")})
            else:
                ck.notes.append("systematic mismatch outside the guard: " + what)
    # un-forced stress: thread sets inside the guard, so any mismatch is a violation
    for which, st in enumerate([outs[0]["stress"], outs[1]["stress"] if len(outs) > 1 else None]):
        if not st:
            continue
        if st["mismatches"]:
            m = st["mismatches"][0]
            ck.notes.append(f"un-forced stress set {which}: {len(st['mismatches'])}+ mismatching calls in {st['rounds']} rounds, "
                            f"e.g. {ops[m['op']]['tag']}: {m['got']} vs solo {m['solo']}")
            ck.failure("cold-index-race" if which == 0 else "concurrent-difference-inside-guard",
                       f"un-forced 16-thread stress (set {which}) on a cold context, thread set inside the guard: a call "
                       f"differs from its solo result ({ops[m['op']]['tag']}: {m['got']} vs {m['solo']})", {"stress": st})
        else:
            ck.notes.append(f"un-forced stress set {which}: no mismatch in {st['rounds']} rounds of 16 threads (cold and warm)")
        if st.get("warm"):
            m = st["warm"][0]
            ck.failure("concurrent-difference-inside-guard", f"un-forced 16-thread stress (set {which}) on a WARM context: a call "
                       f"differs from its solo result ({ops[m['op']]['tag']}: {m['got']} vs {m['solo']})", {"stress": st})
    if stats["guarded"] == 0:
        ck.failure("harness-guard-vacuous", "no generated case satisfies the guard of context_safe", {"kinds": kinds})
    for sset in stress_sets:
        stress_case = [k for k, i in enumerate(idx) if runs[i]["threads"] == sset and not runs[i]["schedule"]]
        if not stress_case or not summ[stress_case[0]] & 16:
            ck.failure("harness-stress-set-not-closed", "a thread set of the un-forced stress is not inside the guard",
                       {"threads": [ops[t]["tag"] for t in sset]})
    ck.cov["distinct_nontrivial"] = len(distinct)
    ck.cov["rule"] = ("(prepared context, one operation per thread, schedule) triples replayed line by line on the real "
                      "XmlContext: the witness of the refutation, random bursty schedules with 2-16 threads on cold and warm "
                      "contexts over ns-closed operation sets (and 15% over all operations); distinct = distinct triples; all "
                      "reach the marked lines of context.py")
    ck.cov["input_distribution"] = dict(kinds, operations=len(ops), marked_lines=len(MARKS), indexed_classes=n_index)
    ck.cov["sequence_stats"] = stats
    ck.cov["samples"] = [replay(idx[0]), replay(idx[len(idx) // 2])]
    return ck.finish(obligations=obligations, discharged=discharged,
                     checker_cmd="make -C coq Properties/C19.vo && coqc -Q coq XV coq/Properties/C19.v (Print Assumptions)",
                     trusted_base=TRUSTED_COMMON + [
                         "harness/sched_trace.py (sys.settrace line scheduler; one worker runs at a time)",
                         "harness/impl_c19.py, harness/impl_c14.py (class generation, canonicalisation)",
                         "axioms: " + (", ".join(axioms) or "none (closed under the global context)")],
                     assumptions=["the GIL makes one dict/list operation atomic; preemption is modelled between marked source "
                                  "lines of context.py only", "classes and len(sys.modules) do not change during a concurrent run",
                                  "the parser's ns_map recorder is write-only (C14_recorder_not_read)"])
