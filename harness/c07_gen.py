"""Generators of hostile source sets for the code-generator pipeline (C07; reusable).

    g_job(rng) -> {"sources": {...}, "options": {...}, "kind": "xsd"|"dtd"|"xml"|"json"|"wsdl", "features": [...]}

Every generator draws names from a hostile alphabet: Python keywords, xsdata's reserved
words, names that collide after case conversion / slugging, names that need a safe prefix,
the signatures of the rename handlers (a / a_attribute, A / A_abstract), names that shadow
what the generated module imports, dunder names, non-ASCII letters, names whose slug is
empty.  XSD/DTD/XML names are kept inside the XML NCName grammar (the generator must
accept the input); JSON keys and enumeration values are arbitrary strings.
"""
import json
import keyword
from xml.sax.saxutils import escape, quoteattr

XS = "http://www.w3.org/2001/XMLSchema"

KW = list(keyword.kwlist)
RESERVED = ["Any", "Decimal", "Enum", "Meta", "Optional", "QName", "Union", "bool", "dict", "field", "Field", "float", "int",
            "list", "object", "self", "str", "type", "validate"]
SHADOW = ["dataclass", "List", "Dict", "Type", "XmlDate", "XmlDateTime", "XmlDuration", "XmlPeriod", "XmlTime", "ForwardRef",
          "Sequence", "Mapping", "tuple", "bytes", "cls", "mro", "name", "value", "Value", "values", "choice", "content",
          "any_element", "other_attributes", "attributes", "match", "case", "annotations", "typing", "dataclasses", "enum",
          "decimal", "xsdata", "generated", "property", "classmethod", "super", "print", "id", "hash", "len", "repr", "eq"]
DUNDER = ["__init__", "__class__", "__doc__", "__slots__", "__dict__", "__module__", "__annotations__", "__post_init__",
          "__dataclass_fields__", "__eq__", "__hash__", "_", "__", "___", "_value_", "_name_", "__members__"]
COLLIDE = ["a", "A", "aB", "a_b", "ab", "AB", "a-b", "a.b", "a_B", "Ab", "a_attribute", "a_Attribute", "a_element", "a_Element",
           "a_1", "a_2", "A_1", "a1", "A_abstract", "a_abstract", "value_1", "choice_1", "_1a", "value_1a", "value__1a", "type_1a",
           "_1", "value_1", "class_value", "class_type", "None_type", "NoneType", "none_type", "type_type", "Type", "TypeType",
           "value_value", "mod", "pkg", "mod_mod", "x", "X", "x_", "_x", "x-", "x.", "xY", "x_y", "XY", "x-y"]
NONASCII = ["é", "Ω", "ß", "中", "ǅ", "éa", "aé", "_é", "été", "Σίσυφος", "ı", "İi", "a·b", "ça_va", "Ünï", "и", "_中1", "é_1"]
EMPTY_SLUG = ["_", "__", "_.-", "é", "中文", "_é_", "-_-"]          # NCName-valid only when starting with _ or a letter
LONG = ["a" * 90, "VeryLongCamelCaseNameThatGoesOnAndOn" * 3, "x_" * 45 + "x"]
UNNAMED = ["͸", "_͸"]                         # XML NameStartChar range, but unassigned in Unicode


_NSC = [(0x41, 0x5A), (0x5F, 0x5F), (0x61, 0x7A), (0xC0, 0xD6), (0xD8, 0xF6), (0xF8, 0x2FF), (0x370, 0x37D), (0x37F, 0x1FFF),
        (0x200C, 0x200D), (0x2070, 0x218F), (0x2C00, 0x2FEF), (0x3001, 0xD7FF), (0xF900, 0xFDCF), (0xFDF0, 0xFFFD),
        (0x10000, 0xEFFFF)]
_NC = _NSC + [(0x2D, 0x2E), (0x30, 0x39), (0xB7, 0xB7), (0x300, 0x36F), (0x203F, 0x2040)]


def _in(c, table):
    o = ord(c)
    return any(a <= o <= b for a, b in table)


def ncname_ok(s):
    """XML 1.0 (5th edition) NCName"""
    return bool(s) and _in(s[0], _NSC) and all(_in(c, _NC) for c in s)


def g_ncname(r, extra=()):
    k = r.random()
    pool = (KW if k < 0.18 else RESERVED if k < 0.28 else SHADOW if k < 0.42 else DUNDER if k < 0.50 else COLLIDE if k < 0.75
            else NONASCII if k < 0.86 else EMPTY_SLUG if k < 0.90 else LONG if k < 0.92 else UNNAMED if k < 0.925
            else list(extra) or COLLIDE)
    for _ in range(20):
        s = r.choice(pool)
        if r.random() < 0.12:
            s = s + r.choice(["_", "-", ".", "1", "_1", "Type", "_type", "_value", "S", "s"]) + r.choice(["", r.choice(COLLIDE)])
        if r.random() < 0.06:
            s = s.swapcase()
        if ncname_ok(s) or s in UNNAMED:
            return s
    return "a"


def g_text_value(r):
    return r.choice(["1a", "value_1a", "", " ", "-1", "value_minus_1", "a b", "A B", "a_b", "é", "+", "-", "--", "%", "None", "True",
                     "class", "mro", "name", "value", "_value_", "await", "1", "01", "1.0", "a", "A", "_", "x y z", "a\"b", "a\\b",
                     "'", "²", "١", "-١", "-1.5", "-.5", "__init__", "type", "a-b", "a.b", "AB", "aB", "中",
                     "very long value " * 8])


BUILTIN = ["xs:string", "xs:int", "xs:integer", "xs:decimal", "xs:boolean", "xs:date", "xs:dateTime", "xs:time", "xs:duration",
           "xs:QName", "xs:anyURI", "xs:float", "xs:double", "xs:base64Binary", "xs:hexBinary", "xs:NMTOKENS", "xs:IDREFS",
           "xs:gYear", "xs:anyType", "xs:anySimpleType", "xs:token", "xs:ID", "xs:language", "xs:positiveInteger", "xs:byte"]


TYPED_ENUMS = [("xs:decimal", ["1.5", "2.5", "-1"]), ("xs:float", ["1.5", "INF", "-0.5"]), ("xs:double", ["1.5", "NaN"]),
               ("xs:date", ["2020-01-01", "2021-12-31"]), ("xs:time", ["12:00:00", "23:59:59Z"]), ("xs:dateTime", ["2020-01-01T00:00:00", "2021-01-01T12:00:00Z"]),
               ("xs:duration", ["P1D", "PT1H", "-P1Y"]), ("xs:gYear", ["2020", "1999"]), ("xs:gYearMonth", ["2020-01"]), ("xs:gMonthDay", ["--01-31"]),
               ("xs:QName", ["xs:int", "xs:string"]), ("xs:hexBinary", ["0A", "FF"]), ("xs:base64Binary", ["YQ==", "Yg=="]), ("xs:int", ["1", "2", "-3"]),
               ("xs:boolean", ["true"]), ("xs:NMTOKENS", ["a b", "c"]), ("xs:anyURI", ["urn:x", "http://a/b"])]
TYPED_DEFAULTS = [("xs:decimal", "1.5"), ("xs:float", "1.5"), ("xs:date", "2020-01-01"), ("xs:time", "12:00:00"), ("xs:dateTime", "2020-01-01T00:00:00"),
                  ("xs:duration", "P1D"), ("xs:gYear", "2020"), ("xs:QName", "xs:int"), ("xs:hexBinary", "0A"), ("xs:base64Binary", "YQ=="),
                  ("xs:int", "7"), ("xs:boolean", "true"), ("xs:NMTOKENS", "a b"), ("xs:double", "INF")]


class _Schema:
    """One schema document under construction."""

    def __init__(self, r, fname, tns, prefix):
        self.r, self.fname, self.tns, self.prefix = r, fname, tns, prefix
        self.complex, self.simple, self.elements, self.attributes, self.groups, self.attr_groups = [], [], [], [], [], []
        self.body = []
        self.features = set()
        self.current = None   # name of the named complex type being generated (extension bases must precede it)


def _occ(r):
    k = r.random()
    if k < 0.45:
        return ""
    if k < 0.6:
        return ' minOccurs="0"'
    if k < 0.8:
        return ' minOccurs="0" maxOccurs="unbounded"'
    if k < 0.9:
        return ' maxOccurs="3"'
    return ' minOccurs="2" maxOccurs="2"'


def _ref(r, schemas, me, kind, before=None):
    """qualified reference to a component of `kind` defined anywhere (prefers the own schema).
    `before` = (schema, name): only components that come strictly earlier in the global order
    (keeps simple-type definitions, extension bases and substitution groups acyclic: circular
    ones are invalid XSD and outside the property's quantifier)."""
    cands = []
    for s in schemas:
        for n in getattr(s, kind):
            if before is not None and (s is before[0] and n == before[1]):
                break
            cands.append((s, n))
        else:
            continue
        break
    if not cands:
        return None
    own = [c for c in cands if c[0] is me]
    s, n = r.choice(own if own and r.random() < 0.6 else cands)
    me.imports.add(s.fname) if s is not me else None
    return (s.prefix + ":" if s.tns else "") + n if s.tns else n, s


def _type_ref(r, schemas, me, simple_only=False, before=None):
    k = r.random()
    if k < 0.45:
        return r.choice(BUILTIN[:16] if simple_only else BUILTIN)
    kinds = ["simple"] if simple_only else ["complex", "simple", "complex"]
    got = _ref(r, schemas, me, r.choice(kinds), before=before)
    if got is None:
        return r.choice(BUILTIN[:16])
    return got[0]


def _particle(r, schemas, me, depth, names):
    """content model text"""
    k = r.random()
    if depth > 2 or k < 0.5:
        n = names()
        k2 = r.random()
        if k2 < 0.55:
            dflt = ""
            t = _type_ref(r, schemas, me)
            if t in ("xs:string", "xs:int", "xs:boolean") and r.random() < 0.2:
                dflt = {"xs:string": ' default="abc"', "xs:int": ' default="7"', "xs:boolean": ' fixed="true"'}[t]
            nil = ' nillable="true"' if r.random() < 0.1 else ""
            return f'<xs:element name={quoteattr(n)} type="{t}"{_occ(r) if not dflt else ""}{dflt}{nil}/>'
        if k2 < 0.75:
            got = _ref(r, schemas, me, "elements")
            if got:
                return f'<xs:element ref="{got[0]}"{_occ(r)}/>'
        if k2 < 0.9 and depth < 2:
            me.features.add("anonymous-inner")
            return (f'<xs:element name={quoteattr(n)}{_occ(r)}><xs:complexType{" mixed=\"true\"" if r.random() < 0.15 else ""}>'
                    f'{_content(r, schemas, me, depth + 1)}</xs:complexType></xs:element>')
        if r.random() < 0.5:
            me.features.add("inline-enum")
            vals = "".join(f'<xs:enumeration value={quoteattr(v)}/>' for v in _enum_values(r))
            return (f'<xs:element name={quoteattr(n)}{_occ(r)}><xs:simpleType><xs:restriction base="xs:string">{vals}'
                    f'</xs:restriction></xs:simpleType></xs:element>')
        me.features.add("wildcard")
        return f'<xs:any{_occ(r)} processContents="{r.choice(["lax", "skip", "strict"])}"{r.choice(["", " namespace=\"##other\"", " namespace=\"##any\""])}/>'
    tag = r.choice(["sequence", "choice", "choice", "sequence"])
    if tag == "choice":
        me.features.add("choice")
    inner = "".join(_particle(r, schemas, me, depth + 1, names) for _ in range(r.randint(1, 3)))
    if r.random() < 0.12:
        got = _ref(r, schemas, me, "groups")
        if got:
            inner += f'<xs:group ref="{got[0]}"{_occ(r)}/>'
            me.features.add("group-ref")
    return f'<xs:{tag}{_occ(r)}>{inner}</xs:{tag}>'


def _attrs(r, schemas, me, names):
    out = ""
    for _ in range(r.choice([0, 0, 1, 2, 3])):
        k = r.random()
        if k < 0.7:
            use = r.choice(["", "", ' use="required"', ' use="optional"', ' use="prohibited"', ' default="x"', ' fixed="y"'])
            tp = _type_ref(r, schemas, me, simple_only=True)
            if "default" in use or "fixed" in use:
                tp = "xs:string"      # a default must be valid for the type, else the schema itself is invalid
                if r.random() < 0.5:  # typed defaults: rendered as constructor calls / literals of that type
                    tp, dv = r.choice(TYPED_DEFAULTS)
                    use = f' {"default" if "default" in use else "fixed"}={quoteattr(dv)}'
                    me.features.add("typed-default")
            out += f'<xs:attribute name={quoteattr(names())} type="{tp}"{use}/>'
        elif k < 0.85:
            got = _ref(r, schemas, me, "attributes")
            if got:
                out += f'<xs:attribute ref="{got[0]}"/>'
        else:
            got = _ref(r, schemas, me, "attr_groups")
            if got:
                out += f'<xs:attributeGroup ref="{got[0]}"/>'
    if r.random() < 0.1:
        out += "<xs:anyAttribute/>"
        me.features.add("anyAttribute")
    return out


def _content(r, schemas, me, depth):
    pool = []

    def names():
        # deliberately reuse names inside one type (element/attribute/case collisions)
        if pool and r.random() < 0.35:
            n = r.choice(pool)
            if r.random() < 0.5:
                n = r.choice([n.upper(), n.lower(), n + "_attribute", n + "_Attribute", n + "_element", n + "_1", n.capitalize(),
                              n.replace("_", "-"), n.replace("_", "."), "_" + n, n + "_value", n + "_type"])
            if ncname_ok(n):
                pool.append(n)
                return n
        n = g_ncname(r)
        pool.append(n)
        return n

    k = r.random()
    if k < 0.08:
        me.features.add("simpleContent")
        return (f'<xs:simpleContent><xs:extension base="{_type_ref(r, schemas, me, simple_only=True)}">{_attrs(r, schemas, me, names)}'
                f'</xs:extension></xs:simpleContent>')
    if k < 0.2 and depth == 0 and me.current is not None:
        got = _ref(r, schemas, me, "complex", before=(me, me.current))
        if got:
            me.features.add("extension")
            kind = r.choice(["extension", "extension", "restriction"])
            body = _particle(r, schemas, me, 1, names) if kind == "extension" and r.random() < 0.7 else ""
            if body and not body.startswith(("<xs:sequence", "<xs:choice")):
                body = f"<xs:sequence>{body}</xs:sequence>"
            return (f'<xs:complexContent><xs:{kind} base="{got[0]}">{body}{_attrs(r, schemas, me, names)}</xs:{kind}>'
                    f'</xs:complexContent>')
    body = _particle(r, schemas, me, depth, names)
    if not body.startswith(("<xs:sequence", "<xs:choice")):
        body = f"<xs:sequence>{body}</xs:sequence>"
    if r.random() < 0.08:
        body = f"<xs:all>{''.join(f'<xs:element name={quoteattr(names())} type=\"xs:string\" minOccurs=\"0\"/>' for _ in range(r.randint(1, 3)))}</xs:all>"
    return body + _attrs(r, schemas, me, names)


def _enum_values(r):
    vals = []
    for _ in range(r.randint(1, 5)):
        v = g_text_value(r)
        if v not in vals:
            vals.append(v)
    return vals


def g_schema_set(r):
    nfiles = r.choice([1, 1, 1, 2, 2, 3])
    schemas = []
    tns_pool = ["urn:a", "urn:b", "http://www.example.com/x.y/schema.xsd", "urn:class", "urn:a:b-c", "http://1st.org/2nd", None]
    # no blanks / non-ASCII in FILE names: Path.as_uri() percent-encodes them while a relative schemaLocation does
    # not, so the same document is loaded twice under two URIs (seen; a defect of the URL handling, outside C07)
    fnames = ["s.xsd", "class.xsd", "1st.xsd", "a-b.xsd", "A.xsd", "sub/t.xsd", "sub/s.xsd", "none.xsd", "__init__.xsd", "x.y.xsd",
              "await.xsd", "Type.xsd"]
    r.shuffle(fnames)
    for i in range(nfiles):
        tns = r.choice(tns_pool)
        if tns in [s.tns for s in schemas] and r.random() < 0.7:
            tns = f"urn:f{i}"
        s = _Schema(r, fnames[i], tns, f"p{i}")
        s.imports = set()
        schemas.append(s)
    # declare names first so that references can go anywhere (cycles included)
    for s in schemas:
        for _ in range(r.randint(1, 4)):
            s.complex.append(g_ncname(r))
        for _ in range(r.randint(0, 3)):
            s.simple.append(g_ncname(r))
        for _ in range(r.randint(1, 3)):
            s.elements.append(g_ncname(r, extra=s.complex))   # element and type with the same / a colliding name
        if r.random() < 0.3:
            s.elements.append(r.choice(s.complex))
        for _ in range(r.choice([0, 0, 1])):
            s.attributes.append(g_ncname(r))
        for _ in range(r.choice([0, 0, 1])):
            s.groups.append(g_ncname(r))
        for _ in range(r.choice([0, 0, 1])):
            s.attr_groups.append(g_ncname(r))
        if r.random() < 0.3:
            # name-collision cluster: case variants plus names that already carry the numeric suffixes
            base = r.choice(["a", "ab", "x_y", "Type", "none", "q"])
            cluster = [base, r.choice([base.upper(), base.capitalize(), base + "_", base.swapcase()])]
            cluster += [r.choice([base, base.upper()]) + "_" + str(k) for k in r.sample([1, 2, 3], r.randint(1, 2))]
            s.complex += [n for n in cluster if ncname_ok(n)]
            s.features.add("collision-cluster")
        for kind in ("complex", "simple", "elements", "attributes", "groups", "attr_groups"):
            lst = getattr(s, kind)
            setattr(s, kind, list(dict.fromkeys(lst)))
        # types share one symbol space
        s.simple = [n for n in s.simple if n not in s.complex]
    feats = set()
    for s in schemas:
        parts = []
        for n in s.complex:
            flags = (' abstract="true"' if r.random() < 0.12 else "") + (' mixed="true"' if r.random() < 0.08 else "")
            doc = ""
            if r.random() < 0.3:
                doc = f'<xs:annotation><xs:documentation>{escape(r.choice(["Doc for it.", "Ends with quote\"", "back\\slash", "triple \"\"\" quotes", "multi\nline\n\n  text", "x" * 150, "çé unicode", "{curly} %s"]))}</xs:documentation></xs:annotation>'
            s.current = n
            parts.append(f'<xs:complexType name={quoteattr(n)}{flags}>{doc}{_content(r, schemas, s, 0)}</xs:complexType>')
            s.current = None
        for n in s.simple:
            k = r.random()
            if k < 0.2:
                # enumeration over a non-string base: the members are rendered as constructor calls (Decimal('1.5'),
                # XmlDate(...), QName(...)) and may be the module's only use of that type
                base, pool = r.choice(TYPED_ENUMS)
                vals = "".join(f'<xs:enumeration value={quoteattr(v)}/>' for v in r.sample(pool, r.randint(1, len(pool))))
                s.features.add("typed-enum")
                parts.append(f'<xs:simpleType name={quoteattr(n)}><xs:restriction base="{base}">{vals}</xs:restriction></xs:simpleType>')
            elif k < 0.6:
                s.features.add("enum")
                vals = "".join(f'<xs:enumeration value={quoteattr(v)}/>' for v in _enum_values(r))
                base = r.choice(["xs:string", "xs:string", "xs:token", "xs:NMTOKEN"])
                parts.append(f'<xs:simpleType name={quoteattr(n)}><xs:restriction base="{base}">{vals}</xs:restriction></xs:simpleType>')
            elif k < 0.75:
                parts.append(f'<xs:simpleType name={quoteattr(n)}><xs:list itemType="{_type_ref(r, schemas, s, simple_only=True, before=(s, n))}"/></xs:simpleType>')
            elif k < 0.88:
                parts.append(f'<xs:simpleType name={quoteattr(n)}><xs:union memberTypes="xs:int {_type_ref(r, schemas, s, simple_only=True, before=(s, n))}"/></xs:simpleType>')
            else:
                parts.append(f'<xs:simpleType name={quoteattr(n)}><xs:restriction base="xs:int"><xs:minInclusive value="1"/>'
                             f'<xs:maxExclusive value="100"/></xs:restriction></xs:simpleType>')
        for n in s.elements:
            k = r.random()
            flags = (' abstract="true"' if r.random() < 0.08 else "") + (' nillable="true"' if r.random() < 0.08 else "")
            sg = ""
            if r.random() < 0.12 and s.elements.index(n) > 0:
                head = r.choice(s.elements[:s.elements.index(n)])
                sg = f' substitutionGroup="{(s.prefix + ":") if s.tns else ""}{head}"'
                s.features.add("substitution")
            if k < 0.55:
                parts.append(f'<xs:element name={quoteattr(n)} type="{_type_ref(r, schemas, s)}"{flags}{sg}/>')
            else:
                parts.append(f'<xs:element name={quoteattr(n)}{flags}{sg}><xs:complexType>{_content(r, schemas, s, 0)}</xs:complexType></xs:element>')
        for n in s.attributes:
            parts.append(f'<xs:attribute name={quoteattr(n)} type="{_type_ref(r, schemas, s, simple_only=True)}"/>')
        for n in s.groups:
            pool = []
            parts.append(f'<xs:group name={quoteattr(n)}><xs:sequence>'
                         + "".join(f'<xs:element name={quoteattr(g_ncname(r))} type="xs:string"{_occ(r)}/>' for _ in range(r.randint(1, 3)))
                         + '</xs:sequence></xs:group>')
        for n in s.attr_groups:
            parts.append(f'<xs:attributeGroup name={quoteattr(n)}>'
                         + "".join(f'<xs:attribute name={quoteattr(g_ncname(r))} type="xs:string"/>' for _ in range(r.randint(1, 2)))
                         + '</xs:attributeGroup>')
        if r.random() < 0.1:
            # anonymous-typed child + repeated choice of same-typed simple elements, one of which has the child's slug in
            # another spelling: DisambiguateChoices then creates inner reference classes next to the existing inner class
            root, x = g_ncname(r), r.choice(["x-y", "a.b", "Ab", "value", "class"])
            x2 = r.choice([x.replace("-", "_").replace(".", "_"), x.upper(), x.lower(), x + "_", x])
            if root not in s.complex + s.simple + s.elements and ncname_ok(x2):
                tp = r.choice(["xs:int", "xs:string", "xs:date"])
                parts.append(f'<xs:element name={quoteattr(root)}><xs:complexType><xs:sequence><xs:element name={quoteattr(x)}><xs:complexType><xs:sequence>'
                             f'<xs:element name="p" type="xs:string"/></xs:sequence></xs:complexType></xs:element><xs:choice maxOccurs="unbounded">'
                             f'<xs:element name={quoteattr(x2)} type="{tp}"/><xs:element name="z" type="{tp}"/></xs:choice></xs:sequence></xs:complexType></xs:element>')
                s.features.add("disambiguate-inner")
        if r.random() < 0.08:
            # shape of C07-F21: a derived type whose attributes clash with an inherited element and with the name the
            # by-preference rename would pick
            b, d, x = g_ncname(r), g_ncname(r), r.choice(["x", "a", "é_1", "value", "class"])
            if b != d and b not in s.complex + s.simple and d not in s.complex + s.simple:
                parts.append(f'<xs:complexType name={quoteattr(b)}><xs:sequence><xs:element name={quoteattr(x)} type="xs:string"/></xs:sequence></xs:complexType>'
                             f'<xs:complexType name={quoteattr(d)}><xs:complexContent><xs:extension base="{(s.prefix + ":") if s.tns else ""}{b}">'
                             f'<xs:attribute name={quoteattr(x)} type="xs:string"/><xs:attribute name={quoteattr(x + "_Attribute")} type="xs:string"/>'
                             f'</xs:extension></xs:complexContent></xs:complexType>')
                s.features.add("override-conflict")
        if r.random() < 0.05 and s.tns:
            # shape of C07-F22: element + abstract complexType of one name, substitution group member used inside an inner mixed type
            y, g = g_ncname(r), g_ncname(r)
            taken = s.complex + s.simple + s.elements
            if y != g and y not in taken and g not in taken:
                parts.append(f'<xs:element name={quoteattr(y)} substitutionGroup="{s.prefix}:{g}"/><xs:complexType name={quoteattr(y)} abstract="true"><xs:sequence>'
                             f'<xs:element name="f" type="xs:anyURI"/><xs:element name="f" minOccurs="2" maxOccurs="2"><xs:complexType mixed="true"><xs:choice>'
                             f'<xs:element ref="{s.prefix}:{g}"/></xs:choice></xs:complexType></xs:element></xs:sequence></xs:complexType><xs:element name={quoteattr(g)}/>')
                s.features.add("inner-enclosing")
        r.shuffle(parts)
        s.body = parts
    sources = {}
    for s in schemas:
        nsdecl = f' xmlns:xs="{XS}"'
        if s.tns:
            nsdecl += f' targetNamespace={quoteattr(s.tns)} xmlns:{s.prefix}={quoteattr(s.tns)}'
            nsdecl += r.choice(["", ' elementFormDefault="qualified"', ' elementFormDefault="qualified" attributeFormDefault="qualified"'])
        imports = ""
        for o in schemas:
            if o is s or o.fname not in s.imports:
                continue
            depth = s.fname.count("/")
            loc = "../" * depth + o.fname
            if o.tns and o.tns != s.tns:
                nsdecl += f' xmlns:{o.prefix}={quoteattr(o.tns)}'
                imports += f'<xs:import namespace={quoteattr(o.tns)} schemaLocation={quoteattr(loc)}/>'
            elif o.tns == s.tns:
                imports += f'<xs:include schemaLocation={quoteattr(loc)}/>'
                if o.tns and o.prefix != s.prefix:
                    nsdecl += f' xmlns:{o.prefix}={quoteattr(o.tns)}'
            else:  # no-namespace schema imported into a namespaced one
                imports += f'<xs:import schemaLocation={quoteattr(loc)}/>'
        sources[s.fname] = f'<?xml version="1.0" encoding="UTF-8"?>\n<xs:schema{nsdecl}>{imports}{"".join(s.body)}</xs:schema>'
        feats |= s.features
    feats.add(f"files={nfiles}")
    return sources, sorted(feats)


# ----------------------------------------------------------------------------------- DTD
def g_dtd(r):
    """A DTD that libxml2 accepts (invalid ones are outside the quantifier: regenerate)."""
    import io

    from lxml import etree

    for _ in range(30):
        src, feats = _g_dtd(r)
        try:
            etree.DTD(io.StringIO(next(iter(src.values()))))
            return src, feats
        except etree.DTDParseError:
            continue
    return {"d.dtd": "<!ELEMENT a (#PCDATA)>\n"}, ["dtd"]


def _g_dtd(r):
    names = list(dict.fromkeys(g_ncname(r) for _ in range(r.randint(2, 7))))
    out = []
    for i, n in enumerate(names):
        k = r.random()
        kids = [r.choice(names) for _ in range(r.randint(1, 3))]
        if k < 0.3:
            cm = "(#PCDATA)"
        elif k < 0.4:
            cm = "EMPTY"
        elif k < 0.45:
            cm = "ANY"
        elif k < 0.55:
            cm = "(#PCDATA|" + "|".join(dict.fromkeys(kids)) + ")*"
        else:
            sep = r.choice([",", "|"])
            cm = "(" + sep.join(dict.fromkeys(c + r.choice(["", "", "?", "*", "+"]) for c in kids)) + ")" + r.choice(["", "", "*", "+", "?"])
        out.append(f"<!ELEMENT {n} {cm}>")
        atts = []
        for a in dict.fromkeys(g_ncname(r) if r.random() < 0.7 else r.choice(names) for _ in range(r.choice([0, 0, 1, 2, 3]))):
            tp = r.choice(["CDATA", "CDATA", "ID", "IDREF", "NMTOKEN", "NMTOKENS", "(a|b|c)", "(class|None|a-b|a.b)", "(1a|value_1a|_)"])
            dv = r.choice(["#REQUIRED", "#IMPLIED", "#IMPLIED", '"a"', '#FIXED "a"'])
            if tp in ("ID",) and dv not in ("#REQUIRED", "#IMPLIED"):
                dv = "#IMPLIED"
            if tp.startswith("(") and dv.endswith('"a"') and "a|" not in tp:
                dv = "#IMPLIED"
            atts.append(f"{a} {tp} {dv}")
        if atts:
            out.append(f"<!ATTLIST {n} " + " ".join(atts) + ">")
    return {r.choice(["d.dtd", "class.dtd", "1.dtd", "A-b.dtd"]): "\n".join(out) + "\n"}, ["dtd"]


# ----------------------------------------------------------------------------------- XML / JSON samples
def g_xml_samples(r):
    nss = [None, "urn:a", "urn:b", "http://x.y/z"]
    names = [g_ncname(r) for _ in range(r.randint(3, 8))]

    # prefixes declared on the root: the same local name then occurs in several namespaces of ONE document
    prefixed = r.random() < 0.5

    def elem(depth):
        n = r.choice(names)
        ns = r.choice(nss) if r.random() < 0.3 and not prefixed else None
        pfx = r.choice(["", "", "a:", "b:"]) if prefixed else ""
        attrs = ""
        for a in dict.fromkeys(r.choice(names) if r.random() < 0.5 else g_ncname(r) for _ in range(r.choice([0, 0, 1, 2]))):
            attrs += f" {a}={quoteattr(g_text_value(r))}"
        if ns:
            attrs += f" xmlns={quoteattr(ns)}"
        k = r.random()
        if depth > 3 or k < 0.35:
            body = escape(r.choice(["", "1", "text", "2001-01-01", "true", " ", "1.5", "a b"]))
        elif k < 0.45:
            body = "mixed " + elem(depth + 1) + " tail"
        else:
            body = "".join(elem(depth + 1) for _ in range(r.randint(1, 4)))
        return f"<{pfx}{n}{attrs}>{body}</{pfx}{n}>"

    root = r.choice(names)
    decl = ' xmlns:a="urn:a" xmlns:b="urn:b"' if prefixed else ""
    out = {}
    for i in range(r.choice([1, 1, 2, 3])):
        out[r.choice(["s", "class", "1", "A-b", "await"]) + str(i) + ".xml"] = f"<{root}{decl}>{''.join(elem(1) for _ in range(r.randint(1, 4)))}</{root}>"
    return out, ["xml"]


def g_json_key(r):
    k = r.random()
    if k < 0.6:
        return g_ncname(r)
    return g_text_value(r)


def g_json_samples(r):
    keys = [g_json_key(r) for _ in range(r.randint(3, 9))]

    def val(depth):
        k = r.random()
        if depth > 3 or k < 0.4:
            return r.choice([1, "s", True, None, 1.5, "2001-01-01", "", -1, [], {}, [1, "a"], [None], [[1], [2]]])
        if k < 0.75:
            return {kk: val(depth + 1) for kk in r.sample(keys, r.randint(1, min(4, len(keys))))}
        return [val(depth + 1) for _ in range(r.randint(0, 3))]

    out = {}
    for i in range(r.choice([1, 1, 2])):
        top = {kk: val(1) for kk in r.sample(keys, r.randint(1, min(5, len(keys))))}
        out[r.choice(["s", "class", "1", "A-b"]) + str(i) + ".json"] = json.dumps(top if r.random() < 0.85 else [top, top], ensure_ascii=False)
    return out, ["json"]


# ----------------------------------------------------------------------------------- WSDL
def g_wsdl(r):
    op = [g_ncname(r) for _ in range(r.randint(1, 2))]
    svc, port, binding, ptype = (g_ncname(r) for _ in range(4))
    tns = r.choice(["urn:svc", "http://tempuri.org/", "urn:class"])
    types, msgs, ops, bops = "", "", "", ""
    for o in dict.fromkeys(op):
        req, res = o, o + r.choice(["Response", "_response", "Out"])
        types += (f'<xs:element name={quoteattr(req)}><xs:complexType><xs:sequence><xs:element name={quoteattr(g_ncname(r))} type="xs:string"/>'
                  f'</xs:sequence></xs:complexType></xs:element><xs:element name={quoteattr(res)} type="xs:string"/>')
        msgs += (f'<wsdl:message name={quoteattr(o + "In")}><wsdl:part name="parameters" element="tns:{req}"/></wsdl:message>'
                 f'<wsdl:message name={quoteattr(o + "Out")}><wsdl:part name="parameters" element="tns:{res}"/></wsdl:message>')
        ops += (f'<wsdl:operation name={quoteattr(o)}><wsdl:input message="tns:{o}In"/><wsdl:output message="tns:{o}Out"/></wsdl:operation>')
        bops += (f'<wsdl:operation name={quoteattr(o)}><soap:operation soapAction={quoteattr(tns + o)} style="document"/>'
                 f'<wsdl:input><soap:body use="literal"/></wsdl:input><wsdl:output><soap:body use="literal"/></wsdl:output></wsdl:operation>')
    text = (f'<?xml version="1.0" encoding="UTF-8"?><wsdl:definitions xmlns:wsdl="http://schemas.xmlsoap.org/wsdl/" '
            f'xmlns:soap="http://schemas.xmlsoap.org/wsdl/soap/" xmlns:xs="{XS}" xmlns:tns={quoteattr(tns)} targetNamespace={quoteattr(tns)}>'
            f'<wsdl:types><xs:schema targetNamespace={quoteattr(tns)} elementFormDefault="qualified">{types}</xs:schema></wsdl:types>{msgs}'
            f'<wsdl:portType name={quoteattr(ptype)}>{ops}</wsdl:portType>'
            f'<wsdl:binding name={quoteattr(binding)} type="tns:{ptype}"><soap:binding transport="http://schemas.xmlsoap.org/soap/http"/>{bops}</wsdl:binding>'
            f'<wsdl:service name={quoteattr(svc)}><wsdl:port name={quoteattr(port)} binding="tns:{binding}"><soap:address location="http://x/"/></wsdl:port></wsdl:service>'
            f'</wsdl:definitions>')
    return {r.choice(["svc.wsdl", "class.wsdl"]): text}, ["wsdl"]


# ----------------------------------------------------------------------------------- options
CASES = ["originalCase", "pascalCase", "camelCase", "snakeCase", "screamingSnakeCase", "mixedCase", "mixedSnakeCase", "mixedPascalCase"]


def g_options(r):
    o = {}
    o["structure_style"] = r.choice(["filenames", "namespaces", "clusters", "single-package", "namespace-clusters"])
    o["docstring_style"] = r.choice(["reStructuredText", "NumPy", "Google", "Accessible", "Blank"])
    if r.random() < 0.5:
        o["compound_fields"] = r.choice([True, {"enabled": True, "force_default_name": True},
                                         {"enabled": True, "use_substitution_groups": True}, {"enabled": True, "max_name_parts": 1},
                                         {"enabled": True, "default_name": "class"}])
    for k, p in (("wrapper_fields", 0.3), ("unnest_classes", 0.3), ("relative_imports", 0.4), ("generic_collections", 0.25),
                 ("frozen", 0.3), ("slots", 0.3), ("order", 0.2), ("unsafe_hash", 0.15), ("include_header", 0.1), ("ignore_patterns", 0.1)):
        if r.random() < p:
            o[k] = True
    if r.random() < 0.15:
        o["eq"] = False
    if r.random() < 0.15:
        o["repr"] = False
    if r.random() < 0.3:
        o["package"] = r.choice(["pkg.sub", "a.b.c", "class", "1pkg.2sub", "My-Pkg", "generated.None", "x", "été.pkg"])
    if r.random() < 0.15:
        o["max_line_length"] = r.choice([40, 60, 120])
    if r.random() < 0.35:
        # The pipeline oracle samples the sub-matrix of conventions that keeps the three name spaces apart (classes
        # capitalised, fields lower-case first, constants upper case).  The full 8^5 matrix is exercised at the level
        # of the naming functions (correspondence + theorems); outside the sub-matrix the generated code breaks in
        # further ways (enum members named `mro`, name-mangled `__x` classes, fields shadowing inner classes): see
        # design.d/C07.md "seen outside the sampled matrix".
        conv = {}
        allowed = {"class_name": ["pascalCase", "mixedPascalCase"], "field_name": ["snakeCase", "camelCase"],
                   "constant_name": ["screamingSnakeCase"], "module_name": ["snakeCase", "mixedSnakeCase", "camelCase"],
                   "package_name": ["snakeCase", "mixedSnakeCase"]}
        for key in ("class_name", "field_name", "constant_name", "module_name", "package_name"):
            if r.random() < 0.5:
                conv[key] = {"case": r.choice(allowed[key])}
                if r.random() < 0.3:
                    conv[key]["safe_prefix"] = r.choice(["f", "x_", "my", "T", "sert", "q"])
        o["conventions"] = conv
    return o


def conv_of_options(o):
    """(case, prefix) for the five name kinds, as harness/c07.py passes conventions to Coq"""
    d = {"class_name": ["pascalCase", "type"], "field_name": ["snakeCase", "value"], "constant_name": ["screamingSnakeCase", "value"],
         "module_name": ["snakeCase", "mod"], "package_name": ["snakeCase", "pkg"]}
    for k, v in (o.get("conventions") or {}).items():
        if "case" in v:
            d[k][0] = v["case"]
        if "safe_prefix" in v:
            d[k][1] = v["safe_prefix"]
    return {k: tuple(v) for k, v in d.items()}


def g_job(r):
    k = r.random()
    if k < 0.55:
        sources, feats = g_schema_set(r)
        kind = "xsd"
    elif k < 0.67:
        sources, feats = g_dtd(r)
        kind = "dtd"
    elif k < 0.80:
        sources, feats = g_xml_samples(r)
        kind = "xml"
    elif k < 0.93:
        sources, feats = g_json_samples(r)
        kind = "json"
    else:
        sources, feats = g_wsdl(r)
        kind = "wsdl"
    return {"sources": sources, "options": g_options(r), "kind": kind, "features": feats}
