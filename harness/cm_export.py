"""Shared exporter: content models, binding metadata, attribute uses and document trees as
Gallina terms for Spec/Cm.v (used by C16; meant to be reused by C02 / C13 / C17).

Content-model trees (Python side):
    ["el", qname, occ] | ["seq", [tree...], occ] | ["or", [tree...], occ] | ["all", [tree...], occ] | ["any", None, occ]
    occ: "" | "?" | "*" | "+" | [min, max-or-None]
Binding metadata: the dict produced by impl_c16.meta_view (real XmlContext.build output):
    {"elements": [{"qname","index","kind","list","py_required","mixed","choices":[{"qname","wild"}]}...],
     "attributes": [{"qname","py_required","default","init","enum"}...]}
"""
from coqterm import cbool, clist, cnat, copt, cstr

XML_NS = "http://www.w3.org/XML/1998/namespace"


# ------------------------------------------------------------------ content models
def occ_wrap(occ, term):
    if occ == "" or occ is None:
        return term
    if occ == "?":
        return f"(Occ 0 (Some 1) {term})"
    if occ == "*":
        return f"(Occ 0 None {term})"
    if occ == "+":
        return f"(Occ 1 None {term})"
    mn, mx = occ
    return f"(Occ {mn} {'None' if mx is None else '(Some %d)' % mx} {term})"


def cm_term(t, resolve=lambda n: n):
    """tree -> Gallina `cm` (nat-scoped numerals; names as list N)."""
    k = t[0]
    if k == "el":
        return occ_wrap(t[2], f"(Elem {cstr(resolve(t[1]))})")
    if k == "any":
        return occ_wrap(t[2], "(AnyElem (fun _ => true))")
    ctor = {"seq": "Seq", "or": "Choice", "all": "All"}[k]
    return occ_wrap(t[2], f"({ctor} {clist([cm_term(x, resolve) for x in t[1]], str, 'cm')})")


def ctype_term(kind, tree=None, resolve=lambda n: n):
    """kind: EMPTY | TEXT | ELEMS | MIXED"""
    if kind == "EMPTY":
        return "CEmpty"
    if kind == "TEXT":
        return "CText"
    return f"({'CElems' if kind == 'ELEMS' else 'CMixed'} {cm_term(tree, resolve)})"


# ------------------------------------------------------------------ binding metadata
def efield_term(names, wild, bounded, required, rank):
    return (f"(mk_efield {clist(names, cstr, 'name')} {cbool(wild)} {cbool(bounded)} {cbool(required)} "
            f"{cnat(rank)})")


def meta_fields(meta):
    """Fields in the order XmlMeta.find_children offers them: element vars by index, then
    compound (choices) vars, then wildcards."""
    plain, compound, wild = [], [], []
    for v in sorted(meta["elements"], key=lambda v: v["index"]):
        k = v["kind"]
        if k == "element":
            plain.append(([v["qname"]], False, not v["list"], v["py_required"] and not v["list"], v["index"]))
        elif k == "elements":
            names = [c["qname"] for c in v["choices"] if not c["wild"]]
            has_wild = any(c["wild"] for c in v["choices"])
            compound.append((names, has_wild, not v["list"], v["py_required"] and not v["list"], v["index"]))
        elif k == "wildcard":
            wild.append(([], True, False, False, v["index"]))
    return plain + compound + wild


def meta_term(meta):
    fields = meta_fields(meta)
    has_text = any(v["kind"] == "text" for v in meta["elements"])
    mixed = any(v["kind"] == "wildcard" and v["mixed"] for v in meta["elements"])
    return f"(mk_meta {clist([efield_term(*f) for f in fields], str, 'efield')} {cbool(has_text)} {cbool(mixed)})"


def afield_term(v):
    enum = "None" if v.get("enum") is None else f"(Some {clist(v['enum'], cstr, 'str')})"
    return (f"(mk_afield {cstr(v['qname'])} {cbool(v['py_required'])} {copt(v['default'], cstr)} "
            f"{cbool(not v['init'])} {enum})")


def afields_term(meta):
    return clist([afield_term(v) for v in meta["attributes"] if v["kind"] == "attribute"], str, "afield")


def attr_decl_term(qname, use, value=None, enum=None):
    """use: REQUIRED | IMPLIED | FIXED | DEFAULT"""
    u = {"REQUIRED": "AReq", "IMPLIED": "AImplied"}.get(use) or \
        (f"(AFixed {cstr(value)})" if use == "FIXED" else f"(ADefault {cstr(value)})")
    e = "None" if enum is None else f"(Some {clist(enum, cstr, 'str')})"
    return f"(mk_attr_decl {cstr(qname)} {u} {e})"


# ------------------------------------------------------------------ documents (lxml elements)
def xnode_term(el):
    """lxml element -> Gallina `xnode` (comments/PIs ignored; adjacent text merged; empty text dropped)."""
    kids = []

    def text(t):
        if t:
            if kids and kids[-1][0] == "t":
                kids[-1] = ("t", kids[-1][1] + t)
            else:
                kids.append(("t", t))

    text(el.text)
    for c in el:
        if isinstance(c.tag, str):
            kids.append(("e", xnode_term(c)))
        text(c.tail)
    attrs = clist([f"({cstr(k)}, {cstr(v)})" for k, v in sorted(el.attrib.items())], str, "(name * str)")
    ks = clist([f"(XText {cstr(v)})" if k == "t" else v for k, v in kids], str, "xnode")
    return f"(XElem {cstr(el.tag)} {attrs} {ks})"


def coq_list_to_py(text):
    """Parse Coq's printing of nested lists / options / pairs of numerals and booleans."""
    import ast
    import re
    t = text.replace("\n", " ")
    t = re.sub(r"%\w+", "", t)
    t = re.sub(r":\s*list.*$", "", t)
    t = t.replace(";", ",").replace("Some", "").replace("None", "None").replace("true", "True").replace("false", "False")
    t = t.replace("nil", "[]")
    return ast.literal_eval(t.strip())
