"""C19 implementation runner: several threads through ONE shared XmlContext (and shared
parser / serializer instances), interleaved by harness/sched_trace.py at the marked lines
of xsdata/formats/dataclass/context.py (JSON stdin -> stdout).

Input  {"static": [...], "dynamic": [], "ops": [...], "marks": {label: [function, line text]},
        "runs": [{"warm": [op index ...], "threads": [op index ...], "schedule": [thread ...]}],
        "stress": {"rounds": n, "threads": [op index ...]} (optional)}
Output {"ambient", "order", "modules0",
        "runs": [{"results": [...], "solo": [...], "log": [[thread, label] ...], "status": "ok" | "timeout: ..."}],
        "stress": {"rounds": n, "mismatches": [...]}}
"""
import json
import sys
import threading

import xsdata.formats.dataclass.context as context_module
from xsdata.formats.dataclass.context import XmlContext
from xsdata.formats.dataclass.parsers import DictDecoder, JsonParser, XmlParser
from xsdata.formats.dataclass.parsers.handlers import XmlEventHandler
from xsdata.formats.dataclass.serializers import DictEncoder, JsonSerializer, XmlSerializer

import impl_c14 as base
from sched_trace import LineScheduler, MarkError, SchedulerTimeout, locate


class Shared:
    """one context, one of each parser / serializer, shared by all threads of a run"""

    def __init__(self):
        self.ctx = XmlContext()
        self.xp = XmlParser(context=self.ctx)
        self.xn = XmlParser(context=self.ctx, handler=XmlEventHandler)
        self.xs = XmlSerializer(context=self.ctx)
        self.jp = JsonParser(context=self.ctx)
        self.js = JsonSerializer(context=self.ctx)
        self.dd = DictDecoder(context=self.ctx)
        self.dds = self.dd
        self.de = DictEncoder(context=self.ctx)


def prepared(ops, warm):
    inst = Shared()
    for i in warm:
        base.run_op(inst, ops[i])
    return inst


def main():
    inp = json.load(sys.stdin)
    wd = base.setup_world(inp, instances=Shared)
    ops = wd["ops"]
    path = context_module.__file__
    try:
        table = locate(path, {int(k): tuple(v) for k, v in inp["marks"].items()})
        mark_error = None
    except MarkError as e:
        table, mark_error = None, str(e)
    out = []
    for run in (inp["runs"] if table is not None else []):
        solo = [base.run_op(prepared(ops, run["warm"]), ops[i]) for i in run["threads"]]
        inst = prepared(ops, run["warm"])
        sched = LineScheduler({path: table}, step_timeout=inp.get("step_timeout", 10.0))
        fns = [(lambda i=i: base.run_op(inst, ops[i])) for i in run["threads"]]
        try:
            results, log = sched.run(fns, run["schedule"])
            status = "ok"
        except SchedulerTimeout as e:
            results, log, status = [None] * len(fns), list(sched.log), "timeout: " + str(e)
        out.append({"results": results, "solo": solo, "log": [list(x) for x in log], "status": status})
    stress = None
    if inp.get("stress"):
        st = inp["stress"]
        old = sys.getswitchinterval()
        sys.setswitchinterval(1e-6)
        stress = {"rounds": st["rounds"]}
        try:
            for mode, warm in (("cold", []), ("warm", st.get("warm", []))):
                mism = []
                solo = [base.run_op(prepared(ops, warm), ops[i]) for i in st["threads"]]
                for rnd in range(st["rounds"]):
                    inst = prepared(ops, warm)
                    res = [None] * len(st["threads"])
                    bar = threading.Barrier(len(st["threads"]))

                    def work(k, i, inst=inst, res=res, bar=bar):
                        bar.wait()
                        res[k] = base.run_op(inst, ops[i])

                    ths = [threading.Thread(target=work, args=(k, i), daemon=True) for k, i in enumerate(st["threads"])]
                    for t in ths:
                        t.start()
                    for t in ths:
                        t.join(30)
                    for k, (a, b) in enumerate(zip(res, solo)):
                        if a != b and len(mism) < 5:
                            mism.append({"round": rnd, "thread": k, "op": st["threads"][k], "got": a, "solo": b})
                stress[mode] = mism
        finally:
            sys.setswitchinterval(old)
        stress["mismatches"] = stress["cold"]
    res = {"ambient": wd["ambient"], "order": wd["order"], "modules0": wd["modules0"], "runs": out, "stress": stress}
    if mark_error:
        res["mark_error"] = mark_error
    json.dump(res, sys.stdout)


if __name__ == "__main__":
    main()
