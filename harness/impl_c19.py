"""C19 implementation runner: several threads through ONE shared XmlContext (and shared
parser / serializer instances), interleaved by harness/sched_trace.py at the marked lines
of xsdata/formats/dataclass/context.py (JSON stdin -> stdout).

Input  {"static": [...], "dynamic": [], "ops": [...], "marks": {label: [function, line text]},
        "runs": [{"warm": [op index ...], "threads": [op index ...], "schedule": [thread ...]}],
        "stress": {"rounds": n, "threads": [op index ...]} (optional)}
Output {"ambient", "order", "modules0",
        "runs": [{"results": [...], "solo": [...], "log": [[thread, label] ...], "status": "ok" | "timeout: ..."}],
        "stress": {"rounds": n, "mismatches": [...]}}
"""
import json
import sys
import threading

import xsdata.formats.dataclass.context as context_module
from xsdata.formats.dataclass.context import XmlContext
from xsdata.formats.dataclass.parsers import DictDecoder, JsonParser, XmlParser
from xsdata.formats.dataclass.parsers.handlers import XmlEventHandler
from xsdata.formats.dataclass.serializers import DictEncoder, JsonSerializer, XmlSerializer

import impl_c14 as base
import random

import xsdata.formats.dataclass.models.elements as elements_module
import xsdata.formats.dataclass.parsers.bases as bases_module
import xsdata.formats.dataclass.parsers.dict as dict_module
from sched_trace import LineScheduler, MarkError, SchedulerTimeout, locate, locate_all, locate_stores


class Shared:
    """one context, one of each parser / serializer, shared by all threads of a run"""

    def __init__(self):
        self.ctx = XmlContext()
        self.xp = XmlParser(context=self.ctx)
        self.xn = XmlParser(context=self.ctx, handler=XmlEventHandler)
        self.xs = XmlSerializer(context=self.ctx)
        self.jp = JsonParser(context=self.ctx)
        self.js = JsonSerializer(context=self.ctx)
        self.dd = DictDecoder(context=self.ctx)
        self.dds = self.dd
        self.de = DictEncoder(context=self.ctx)


def prepared(ops, warm):
    inst = Shared()
    for i in warm:
        base.run_op(inst, ops[i])
    return inst


def main():
    inp = json.load(sys.stdin)
    wd = base.setup_world(inp, instances=Shared)
    ops = wd["ops"]
    path = context_module.__file__
    try:
        table = locate(path, {int(k): tuple(v) for k, v in inp["marks"].items()})
        mark_error = None
    except MarkError as e:
        table, mark_error = None, str(e)
    out = []
    for run in (inp["runs"] if table is not None else []):
        solo = [base.run_op(prepared(ops, run["warm"]), ops[i]) for i in run["threads"]]
        inst = prepared(ops, run["warm"])
        sched = LineScheduler({path: table}, step_timeout=inp.get("step_timeout", 10.0))
        fns = [(lambda i=i: base.run_op(inst, ops[i])) for i in run["threads"]]
        try:
            results, log = sched.run(fns, run["schedule"])
            status = "ok"
        except SchedulerTimeout as e:
            results, log, status = [None] * len(fns), list(sched.log), "timeout: " + str(e)
        out.append({"results": results, "solo": solo, "log": [list(x) for x in log], "status": status})
    # forced yield points on every line of the XmlMeta / XmlVar methods (models/elements.py) and on the marked
    # lines of context.py, random schedules, no model: the oracle is the solo result
    free = []
    if inp.get("free_runs"):
        # (get_subclasses / is_binding_model walk every class of the process: thread-local, thousands of lines)
        files = {m.__file__: locate_all(m.__file__, exclude=("__init__", "get_subclasses", "is_binding_model", "get_builder"))
                 for m in (elements_module, context_module, dict_module)}
        for run in inp["free_runs"]:
            solo = [base.run_op(prepared(ops, run["warm"]), ops[i]) for i in run["threads"]]
            inst = prepared(ops, run["warm"])
            fp0 = base.shared_fingerprint(inst)
            sched = LineScheduler(files, step_timeout=inp.get("step_timeout", 10.0), lazy=True)
            fns = [(lambda i=i: base.run_op(inst, ops[i])) for i in run["threads"]]
            try:
                results, steps = sched.run_random(fns, random.Random(run["seed"]))
                status = "ok"
            except SchedulerTimeout as e:
                results, steps, status = [None] * len(fns), len(sched.log), "timeout: " + str(e)
            free.append({"results": results, "solo": solo, "steps": steps, "status": status,
                         "inst_changed": base.shared_fingerprint(inst) != fp0})
    # systematic exploration: a thread parks immediately before every statement that stores into state reachable
    # from `self` (outside constructors) in models/elements.py, context.py, parsers/dict.py, parsers/bases.py, and at
    # the first line it reaches after such a statement.  Two threads A, B: every schedule with ONE preemption
    # (A runs k steps, B runs to completion, A completes; and with the roles swapped), then sampled schedules
    # with two ("A k1 steps, B k2 steps, A completes, B completes" / "..., A one step, B completes, A completes")
    systematic, mutators = [], []
    if inp.get("sys_runs"):
        files = {}
        for m in (elements_module, context_module, dict_module, bases_module):
            t_, st_ = locate_stores(m.__file__)
            files[m.__file__] = t_
            mutators += [list(x) for x in st_]
        for run in inp["sys_runs"]:
            a, b = run["threads"]
            solo = [base.run_op(prepared(ops, run["warm"]), ops[i]) for i in (a, b)]
            changed = []

            def one(schedule):
                inst = prepared(ops, run["warm"])
                fp0 = base.shared_fingerprint(inst)
                sched = LineScheduler(files, step_timeout=inp.get("step_timeout", 10.0), store_window=True, lazy=True)
                fns = [(lambda i=i: base.run_op(inst, ops[i])) for i in (a, b)]
                out_ = sched.run(fns, schedule)
                if base.shared_fingerprint(inst) != fp0:
                    changed.append(schedule)
                return out_

            rec = {"solo": solo, "explored": 0, "bad": [], "status": "ok", "steps": [0, 0], "inst_changed": []}
            try:
                # how many yield points each thread passes when it goes FIRST (the second one finds lazily built
                # state ready and passes fewer); +1: with lazy start the first release only starts the thread
                _, log = one([])
                _, log_b = one([1] * 100000)
                na, nb = sum(1 for t, _ in log if t == 0) + 1, sum(1 for t, _ in log_b if t == 1) + 1
                rec["steps"] = [na, nb]
                rng = random.Random(run["seed"])
                big = 4 * (na + nb) + 200        # "to completion": a thread preempting a cold one does more than in the sequential run
                first = [[0] * k + [1] * big for k in range(0, na + 1)] + [[1] * k + [0] * big for k in range(1, nb + 1)]
                if len(first) > run["max"]:
                    first = rng.sample(first, run["max"])
                second = []
                for k1 in range(0, na + 1):
                    for k2 in range(1, nb + 1):
                        second.append([0] * k1 + [1] * k2)
                        second.append([0] * k1 + [1] * k2 + [0] + [1] * big)
                room = max(run["max"] - len(first), run["max"] // 2)
                if len(second) > room:
                    second = rng.sample(second, room)
                for sc in first + second:
                    results, _ = one(sc)
                    rec["explored"] += 1
                    if results != solo and len(rec["bad"]) < 3:
                        rec["bad"].append({"schedule": sc, "results": results})
                rec["inst_changed"] = changed[:2]
            except SchedulerTimeout as e:
                rec["status"] = "timeout: " + str(e)
            systematic.append(rec)
    stress = None
    if inp.get("stress"):
        st = inp["stress"]
        old = sys.getswitchinterval()
        sys.setswitchinterval(1e-6)
        stress = {"rounds": st["rounds"]}
        try:
            for mode, warm in (("cold", []), ("warm", st.get("warm", []))):
                mism = []
                solo = [base.run_op(prepared(ops, warm), ops[i]) for i in st["threads"]]
                for rnd in range(st["rounds"]):
                    inst = prepared(ops, warm)
                    res = [None] * len(st["threads"])
                    bar = threading.Barrier(len(st["threads"]))

                    def work(k, i, inst=inst, res=res, bar=bar):
                        bar.wait()
                        res[k] = base.run_op(inst, ops[i])

                    ths = [threading.Thread(target=work, args=(k, i), daemon=True) for k, i in enumerate(st["threads"])]
                    for t in ths:
                        t.start()
                    for t in ths:
                        t.join(30)
                    for k, (a, b) in enumerate(zip(res, solo)):
                        if a != b and len(mism) < 5:
                            mism.append({"round": rnd, "thread": k, "op": st["threads"][k], "got": a, "solo": b})
                stress[mode] = mism
        finally:
            sys.setswitchinterval(old)
        stress["mismatches"] = stress["cold"]
    res = {"ambient": wd["ambient"], "order": wd["order"], "modules0": wd["modules0"], "runs": out, "stress": stress,
           "free": free, "systematic": systematic, "mutators": mutators}
    if mark_error:
        res["mark_error"] = mark_error
    json.dump(res, sys.stdout)


if __name__ == "__main__":
    main()
