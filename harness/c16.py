"""C16 — generated classes are faithful to the DTD they came from.

Deciding artefacts
  * theorems of coq/Properties/C16.v: the validator of Spec/Cm.v is sound (every word of the
    content model finds a slot, required fields get filled, order is kept under order_safe),
    the faithful model of DtdMapper keeps capacity under the guards, refutations outside them,
    attribute defaults re-materialise;
  * per generated program (translation validation): content models read from the DTD
    description + binding metadata of the really generated classes -> `check` evaluated in Coq.
Tie: Model/Dtd.v against the real DtdParser/DtdMapper output on every generated DTD;
Spec/Cm.v's slot assignment against the real XmlParser on every generated document;
Spec/Cm.v's language against lxml's DTD validator.
Search: every generated DTD-valid document is parsed (strict), serialized, compared as
infosets with defaults applied (verdict in Coq), re-validated with lxml.
"""
import io
import os
import re
import time

from lxml import etree

import c16_gen as G
import cm_export as X
import common
from common import Check, run_impl, standard_proof_step, TRUSTED_COMMON, CORR, BuildError
from coqterm import cstr, cbool, copt, clist

HEADER = """From Coq Require Import NArith List Bool Arith.
From XV Require Import Base.Str Base.Eqb Spec.Cm Spec.Dtd Model.Dtd Model.DtdCorr.
Import ListNotations.
Close Scope N_scope.
Open Scope nat_scope.
Fixpoint bad_idx {A} (f : A -> bool) (i : nat) (l : list A) : list nat :=
  match l with [] => [] | x :: r => if f x then bad_idx f (S i) r else i :: bad_idx f (S i) r end.
"""
XML_NS = "http://www.w3.org/XML/1998/namespace"
FLAG_NAMES = ["check", "check_attrs", "model_capacity_ok", "order_safe", "rep_confined", "cm_wf", "amp_default", "guard_orseq", "rep_names_unique", "choice_dups_ok"]
F_CHECK, F_ATTRS, F_MODEL, F_OSAFE, F_REP, F_WF, F_AMP, F_ORSEQ, F_REPU, F_DUPCH = range(10)


# ------------------------------------------------------------------ Coq evaluation of a file with several Evals
def coq_multi(tag, defs, evals, timeout=900):
    """Write Corr/<tag>.v with `defs` and one `Eval vm_compute in (e)` per entry; return the printed values."""
    os.makedirs(CORR, exist_ok=True)
    uniq = f"c16_{os.getpid()}_{tag}"          # run-unique: several checks may run at the same time
    path = os.path.join(CORR, uniq + ".v")
    with open(path, "w") as f:
        f.write(HEADER + defs + "\n" + "\n".join(f"Eval vm_compute in ({e})." for e in evals) + "\n")
    rc, out, err = common._coqc(path, timeout)
    if os.environ.get("C16_KEEP"):
        import shutil
        shutil.copy(path, "/tmp/c16_keep_" + tag + ".v")
        with open("/tmp/c16_keep_" + tag + ".out", "w") as f:
            f.write(out + err)
    for ext in (".v", ".vo", ".vok", ".vos", ".glob"):
        try:
            os.remove(path[:-2] + ext)
        except FileNotFoundError:
            pass
    try:
        os.remove(os.path.join(CORR, f".{uniq}.aux"))
    except FileNotFoundError:
        pass
    if rc != 0:
        raise BuildError(os.path.relpath(path, common.COQ), (out + err)[-3000:])
    vals = []
    for chunk in re.split(r"^\s*= ", out, flags=re.M)[1:]:
        m = list(re.finditer(r"\n\s*: ", chunk))
        vals.append(chunk[:m[-1].start()] if m else chunk)
    if len(vals) != len(evals):
        raise BuildError(os.path.relpath(path, common.COQ), f"expected {len(evals)} values, got {len(vals)}: " + out[-800:])
    return [X.coq_list_to_py(v) for v in vals]


# ------------------------------------------------------------------ names
def clark(d, name, element=True):
    """Name as a namespace-aware reader presents it."""
    if ":" in name:
        p, loc = name.split(":")
        if p == "xml":
            return "{" + XML_NS + "}" + loc
        return "{" + d["prefixes"][p] + "}" + loc
    if element and d["default_ns"]:
        return "{" + d["default_ns"] + "}" + name
    return name


def local(name):
    return name.split(":")[-1]


# ------------------------------------------------------------------ term printers for the model records
def raw_content_term(c):
    if c is None:
        return "None"
    return (f"(Some (RC {copt(c['name'], cstr)} {cstr(c['type'])} {cstr(c['occur'])} "
            f"{raw_content_term(c['left'])} {raw_content_term(c['right'])}))")


def raw_attr_term(a):
    return (f"(mk_raw_attr {copt(a['prefix'], cstr)} {cstr(a['name'])} {cstr(a['type'])} {cstr(a['default'])} "
            f"{copt(a['default_value'], cstr)} {clist(a['values'], cstr, 'str')})")


def raw_element_term(e):
    return (f"(mk_raw_element {cstr(e['name'])} {copt(e['prefix'], cstr)} {cstr(e['type'])} "
            f"{raw_content_term(e['content'])} {clist([raw_attr_term(a) for a in e['attributes']], str, 'raw_attr')})")


def dc_term(c):
    if c is None:
        return "None"
    return (f"(Some (DC {copt(c['name'], cstr)} {cstr(c['type'])} {cstr(c['occur'])} {dc_term(c['left'])} "
            f"{dc_term(c['right'])}))")


def ns_map_term(m):
    return clist([f"({copt(k, cstr)}, {cstr(v)})" for k, v in m], str, "(option str * str)")


def xs_element_term(e):
    attrs = clist([f"(mk_dtd_attribute {cstr(a['name'])} {copt(a['prefix'], cstr)} {cstr(a['type'])} {cstr(a['default'])} "
                   f"{copt(a['default_value'], cstr)} {clist(a['values'], cstr, 'str')})" for a in e["attributes"]],
                  str, "dtd_attribute")
    return (f"(mk_dtd_element {cstr(e['name'])} {cstr(e['type'])} {copt(e['prefix'], cstr)} {dc_term(e['content'])} "
            f"{attrs} {ns_map_term(e['ns_map'])})")


def cN(v):
    if v is None:
        return "None"
    return f"(Some {G_MAXSIZE if v == 'inf' else v}%N)"


G_MAXSIZE = 9223372036854775807


def attr_term(a):
    ch = "None" if a["choice"] is None else f"(Some (repeat true {a['choice']}))"
    types = clist([f"(mk_attr_type {cstr(t['qname'])} {cbool(t['native'])} {cbool(t['forward'])})" for t in a["types"]],
                  str, "attr_type")
    return (f"(mk_attr {cstr(a['name'])} {cstr(a['tag'])} {copt(a['namespace'], cstr)} {types} {copt(a['default'], cstr)} "
            f"{cbool(a['fixed'])} {cN(a['min'])} {cN(a['max'])} {ch})")


def klass_term(k):
    exts = clist([f"(mk_extension {cstr(e['tag'])} {cstr(e['qname'])} {cbool(e['native'])})" for e in k["extensions"]],
                 str, "extension")
    # enumeration members: codegen's Attr rewrites names without an alphanumeric character ("." -> "FULL STOP");
    # member naming is C07's subject, the model keeps the value as name, so members are compared by value
    inner = clist([f"({cstr(i['qname'])}, {clist([attr_term(dict(a, name=a['default'])) for a in i['attrs']], str, 'attr')})"
                   for i in k["inner"]],
                  str, "(str * list attr)")
    return (f"(mk_klass {cstr(k['qname'])} {cstr(k['tag'])} {cbool(k['mixed'])} {ns_map_term(k['ns_map'])} {exts} "
            f"{clist([attr_term(a) for a in k['attrs']], str, 'attr')} {inner})")


# ------------------------------------------------------------------ spec side of a program, from the generator's own description
def el_ctype(d, el):
    k = el["kind"]
    res = lambda n: clark(d, n)  # noqa: E731
    if k == "EMPTY":
        return X.ctype_term("EMPTY")
    if k == "PCDATA":
        return X.ctype_term("TEXT")
    if k == "ANY":
        return X.ctype_term("MIXED", ["any", None, "*"])
    if k == "MIXED":
        return X.ctype_term("MIXED", ["or", [["el", n, ""] for n in el["mixed"]], "*"] if len(el["mixed"]) > 1
                            else ["el", el["mixed"][0], "*"], res)
    return X.ctype_term("ELEMS", el["cm"], res)


def el_decls(d, el):
    out = []
    for a in el["attrs"]:
        if a["name"].startswith("xmlns"):
            continue
        out.append(X.attr_decl_term(clark(d, a["name"], element=False), a["dflt"], a["value"],
                                    a["values"] if a["type"] == "ENUM" else None))
    return clist(out, str, "attr_decl")


EMPTY_META = {"elements": [], "attributes": []}


def find_meta(metas, d, name):
    q = clark(d, name)
    for m in metas:
        if m["qname"] == q:
            return m
    for m in metas:                     # classes of namespaced elements may come out unqualified
        if m["qname"] == local(name) or m["qname"].endswith("}" + local(name)):
            return m
    return None


def parse_doc(txt):
    return etree.fromstring(txt.encode())


def shape_of_lxml(c):
    if c is None:
        return None
    return {"type": c["type"], "name": c["name"], "occur": c["occur"], "left": shape_of_lxml(c["left"]),
            "right": shape_of_lxml(c["right"])}


def expected_shape(d, el):
    """lxml's tree for the element, predicted from the description (self-check of the generator)."""
    k = el["kind"]
    if k in ("EMPTY", "ANY"):
        return None
    pc = {"type": "pcdata", "name": None, "occur": "once", "left": None, "right": None}
    if k == "PCDATA":
        return pc
    strip = lambda t: (["el", local(t[1]), t[2]] if t[0] == "el" else [t[0], [strip(x) for x in t[1]], t[2]])  # noqa: E731
    if k == "MIXED":
        names = [local(n) for n in el["mixed"]]
        right = G.to_binary(["el", names[0], ""]) if len(names) == 1 else G.to_binary(["or", [["el", n, ""] for n in names], ""])
        return {"type": "or", "name": None, "occur": "mult", "left": pc, "right": right}
    return G.to_binary(strip(el["cm"]))


# ------------------------------------------------------------------ witness documents
def witness_doc(d, rng, el_name, word, text=False):
    """<el_name> with exactly the children `word` (Clark names), each child minimal; el_name is the document root."""
    dg = G.DocGen(d, rng)
    inv = {clark(d, e["name"]): e["name"] for e in d["elements"]}
    return dg.document("min", root_name=el_name, force=([inv[q] for q in word], text))


# ------------------------------------------------------------------ witnesses of fixed findings: run every time
def _leaf(n):
    return {"name": n, "kind": "EMPTY", "attrs": []}


def _desc(cm, names, attrs=()):
    return {"root": "r", "prefixes": {}, "default_ns": None, "flavour": "witness",
            "elements": [{"name": "r", "kind": "CM", "cm": cm, "attrs": list(attrs)}] + [_leaf(n) for n in names]}


FIXED_WITNESSES = [
    # C16-F1 (fixed 1017a9f): occurrence of a sequence group
    (_desc(["seq", [["el", "a", ""], ["el", "b", ""]], "*"], ["a", "b"]), ["<r><a/><b/><a/><b/></r>", "<r/>"]),
    (_desc(["seq", [["el", "a", ""], ["el", "b", ""]], "?"], ["a", "b"]), ["<r/>", "<r><a/><b/></r>"]),
    (_desc(["seq", [["el", "a", ""], ["el", "b", ""]], "+"], ["a", "b"]), ["<r><a/><b/><a/><b/><a/><b/></r>"]),
    # C16-F2 (fixed 160d460): occurrence of a member of a choice
    (_desc(["or", [["el", "a", "*"], ["el", "b", ""]], ""], ["a", "b"]), ["<r><a/><a/></r>", "<r><b/></r>", "<r/>"]),
    (_desc(["or", [["seq", [["el", "a", ""], ["el", "b", "*"]], ""], ["el", "c", ""]], ""], ["a", "b", "c"]),
     ["<r><a/><b/><b/></r>", "<r><c/></r>"]),
    # C16-F7 (fixed 5f04a63): "&" in attribute defaults
    (_desc(["el", "a", "?"], ["a"], [{"name": "k", "type": "CDATA", "values": [], "dflt": "DEFAULT", "value": "R&D"},
                                      {"name": "f", "type": "CDATA", "values": [], "dflt": "FIXED", "value": "x&y<z"}]),
     ["<r/>", '<r k="p&amp;q"><a/></r>']),
]


# ------------------------------------------------------------------ the check
def run(ck: Check):
    ck.level = "translation_validation"
    obligations, discharged, axioms = standard_proof_step(
        ck, extra_targets=["Model/DtdCorr.vo", "Proofs/Cm.vo", "Proofs/CmMatch.vo", "Proofs/Dtd.vo"])
    r = ck.rng
    NPROG = int(os.environ.get("C16_NPROG") or ck.n(40, 500))
    NDOC = int(os.environ.get("C16_NDOC") or ck.n(20, 60))

    # ---------------- programs
    flavours = [None] * 9 + ["prefix-attrs", "prefix-attrs", "default-ns", "prefix-attrs", "prefix-elements"]
    programs, regen = [], {}
    replay = None
    if getattr(ck, "replay_file", None):
        import json
        replay = json.load(open(ck.replay_file))["replay"]
        if "desc" not in replay:
            raise RuntimeError("replay file without a DTD description ('desc')")
        docs = [replay["doc"]] if replay.get("doc") else []
        if not docs:
            dg = G.DocGen(replay["desc"], r)
            docs = [x for x in (dg.document(st) for st in ("min", "max", "rand", "rand", "rand"))
                    if G.validate(replay["dtd"], x)[0]]
        programs.append({"d": replay["desc"], "dtd": replay["dtd"], "docs": docs})
        NPROG = 1
    else:
        for d, docs in FIXED_WITNESSES:
            txt = G.dtd_text(d)
            for x in docs:
                ok, err = G.validate(txt, x)
                if not ok:
                    raise RuntimeError(f"C16 witness document is not DTD-valid: {x} ({err})")
            programs.append({"d": d, "dtd": txt, "docs": list(docs)})
        NPROG += len(FIXED_WITNESSES)
    while len(programs) < NPROG:
        flav = flavours[len(programs) % len(flavours)]
        d = None
        for _attempt in range(40):
            d = G.gen_dtd(r, flav)
            txt = G.dtd_text(d)
            dg = G.DocGen(d, r)
            docs, bad = [], None
            for j in range(NDOC):
                style = "min" if j == 0 else ("max" if j == 1 else "rand")
                dg.any_text_off = (j % 4 != 3)          # ANY with text and children together: every 4th document
                dg.ws_chunks = (j % 7 == 6)             # white-space-only chunks in mixed content: every 7th
                doc = dg.document(style, ws=(j % 5 == 4))
                ok, err = G.validate(txt, doc)
                if not ok:
                    bad = err
                    break
                docs.append(doc)
            if bad is None:
                break
            key = "non-deterministic content model" if "determinist" in bad else bad[:50]
            regen[key] = regen.get(key, 0) + 1
            d = None
        if d is None:
            raise RuntimeError("C16 generator: could not produce a DTD with valid documents: " + str(bad))
        programs.append({"d": d, "dtd": txt, "docs": docs})
    unexpected = {k: v for k, v in regen.items() if k != "non-deterministic content model"}
    if sum(unexpected.values()) > NPROG:
        raise RuntimeError(f"C16 generator produces invalid documents too often: {unexpected}")

    # ---------------- the real pipeline, both compound settings
    payload = {"programs": [{"dtd": p["dtd"], "root": p["d"]["root"], "compound": comp, "docs": p["docs"],
                             "ns_map": ns_map_of(p["d"])}
                            for p in programs for comp in (False, True)]}
    res = run_impl("impl_c16.py", payload, timeout=3000, with_shims=True)
    runs = []       # one per (program, compound)
    for i, p in enumerate(programs):
        for j, comp in enumerate((False, True)):
            runs.append({"p": p, "compound": comp, "res": res[2 * i + j], "pi": i})
    ck.cov["evaluations"] = sum(len(p["docs"]) for p in programs) * 2

    def replay_of(run, **kw):
        out = {"dtd": run["p"]["dtd"], "root": run["p"]["d"]["root"], "compound": run["compound"], "desc": run["p"]["d"]}
        out.update(kw)
        return out

    # generator self-check: lxml reads the DTD text the way the description says
    for p, rs in zip(programs, res[::2]):
        lx = {e["name"]: e for e in rs["lxml"]}
        for el in p["d"]["elements"]:
            got = shape_of_lxml(lx[local(el["name"])]["content"])
            if got != expected_shape(p["d"], el):
                raise RuntimeError(f"C16 generator self-check: lxml reads {el['name']} of\n{p['dtd']}\nas {got}")

    # code generation must succeed and import
    for run in runs:
        g = run["res"]["gen"]
        if not g["ok"]:
            ck.failure("codegen-failed", f"code generation / import failed: {g['err']}: {g['msg']}",
                       replay_of(run, error=g))

    good = [run for run in runs if run["res"]["gen"]["ok"]]

    # ---------------- build the Coq case files (sharded by program)
    def program_defs(k, run):
        p, rs, d = run["p"], run["res"], run["p"]["d"]
        lx = rs["lxml"]
        lx_index = {e["name"]: i for i, e in enumerate(lx)}
        defs = [f"Definition RAW{k} : list raw_element := {clist([raw_element_term(e) for e in lx], str, 'raw_element')}."]
        defs.append(f"Definition XS{k} : list dtd_element := {clist([xs_element_term(e) for e in rs['xs_dtd']], str, 'dtd_element')}.")
        defs.append(f"Definition KS{k} : list klass := {clist([klass_term(c) for c in rs['mapped']], str, 'klass')}.")
        classes = []
        for el in d["elements"]:
            m = find_meta(rs["meta"], d, el["name"]) or EMPTY_META
            i = lx_index[local(el["name"])]
            classes.append(f"(mk_eclass {cstr(clark(d, el['name']))} {cstr(el['name'])} {el_ctype(d, el)} {X.meta_term(m)} "
                           f"{el_decls(d, el)} {X.afields_term(m)} {raw_content_term(lx[i]['content'])} (model_attrs_of RAW{k} {i}))")
        defs.append(f"Definition P{k} : program := mk_program {clist(classes, str, 'eclass')} {cbool(run['compound'])}.")
        docs = []
        for j, (doc, dr) in enumerate(zip(p["docs"], rs["docs"])):
            tin = X.xnode_term(parse_doc(doc))
            if "ok" in dr:
                try:
                    o = parse_doc(dr["ok"])
                    tout = f"(Some {X.xnode_term(o)})"
                    valid, _ = G.validate(p["dtd"], dr["ok"])
                except etree.XMLSyntaxError:
                    tout, valid = "(Some (XText []))", False
                    ck.failure("output-ill-formed", "the serializer's output is not well-formed XML", replay_of(run, doc=doc, out=dr["ok"]))
            else:
                tout, valid = "None", False
            docs.append(f"(P{k}, mk_doc {tin} {tout} {cbool(valid)})")
        defs.append(f"Definition DOCS{k} : list (program * doc) := {clist(docs, str, '(program * doc)')}.")
        return "\n".join(defs)

    SH = 6
    shard_times = []
    shards = [good[i:i + SH] for i in range(0, len(good), SH)]

    def eval_shard(si):
        sh = shards[si]
        defs = "\n".join(program_defs(k, run) for k, run in enumerate(sh))
        ks = range(len(sh))
        alld = " ++ ".join(f"DOCS{k}" for k in ks) or "[]"
        defs += f"\nDefinition ALLDOCS : list (program * doc) := {alld}.\n"
        trip = clist([f"(RAW{k}, XS{k}, KS{k})" for k in ks], str, "(list raw_element * list dtd_element * list klass)")
        progs = clist([f"P{k}" for k in ks], str, "program")
        evals = [f"bad_idx agree_parser 0 {trip}", f"bad_idx agree_mapper 0 {trip}",
                 f"map (fun p => map class_flags (p_classes p)) {progs}",
                 f"map (fun p => map rejected_of (p_classes p)) {progs}",
                 f"map guard_ns {clist([f'RAW{k}' for k in ks], str, 'list raw_element')}",
                 "bad_idx doc_parse_agrees 0 ALLDOCS", "bad_idx doc_infoset_ok 0 ALLDOCS",
                 "bad_idx doc_infoset_unordered_ok 0 ALLDOCS", "bad_idx doc_revalid_ok 0 ALLDOCS",
                 "bad_idx doc_in_lang 0 ALLDOCS", "map doc_rejecting ALLDOCS",
                 "bad_idx (fun pd => negb (doc_has_mixed_ws pd)) 0 ALLDOCS",
                 "bad_idx (fun pd => negb (doc_has_wild_tail pd)) 0 ALLDOCS",
                 "bad_idx (fun pd => negb (doc_has_amp_class pd)) 0 ALLDOCS",
                 "map doc_class_idx ALLDOCS"]
        t0 = time.time()
        out = coq_multi(f"s{si}", defs, evals, timeout=600)
        shard_times.append(round(time.time() - t0, 1))
        return out

    import concurrent.futures as cf
    with cf.ThreadPoolExecutor(max_workers=12) as ex:
        results = list(ex.map(eval_shard, range(len(shards))))

    # ---------------- interpret
    KNOWN = {"ns": "dtd-element-namespaces-lost", "any": "dtd-any-text-after-child",
             "tail": "dtd-any-child-tail-captured", "amp": "dtd-attribute-default-ampersand-unexpanded",
             "orseq": "dtd-choice-of-sequence-one-compound-slot",
             "repdup": "dtd-repeated-choice-member-also-outside",
             "dupchoice": "dtd-same-name-in-two-choices",
             "ws": "mixed-whitespace-only-text-dropped"}
    stats = {"classes": 0, "classes_check_true": 0, "docs_ok": 0, "docs_parse_failed": 0, "witness_confirmed": 0,
             "witness_unconfirmed": 0, "order_claimed_docs": 0}
    witness_jobs = []
    distinct = set()

    def classify(flags, gns, code, compound=False):
        """Narrow class of a rejection at a class with these Coq-computed flags, or None (= new violation).
        The classes of fixed findings (seq / or / amp) are still named so that a regression is reported under them."""
        if code == 3:
            return KNOWN["any"] if not flags[F_CHECK] else None
        if code == 2:
            return (KNOWN["ns"] if not gns else (KNOWN["amp"] if flags[F_AMP] else None)) if not flags[F_ATTRS] else None
        if code != 1:
            return None
        if flags[F_MODEL]:
            # the mapper model kept capacity: the loss is elsewhere (clauses dupchoice / orseq explain one)
            if not flags[F_DUPCH]:
                return KNOWN["dupchoice"]
            return KNOWN["orseq"] if compound and not flags[F_ORSEQ] else None
        if not gns:
            return KNOWN["ns"]
        return None

    def order_class(run, fls, classes):
        """Order changed where only the property's own side condition (not the proved order_safe) promised it:
        which Coq-computed guard clause of a class in the document explains it, if any."""
        if not run["compound"]:
            return None
        cs = [fls[ci] for ci in classes if ci < len(fls)]
        if any(not f[F_DUPCH] for f in cs):
            return KNOWN["dupchoice"]
        if any(not f[F_ORSEQ] for f in cs):
            return KNOWN["orseq"]
        if any(f[F_REP] and not f[F_OSAFE] and not f[F_REPU] for f in cs):
            return KNOWN["repdup"]
        return None

    for si, sh in enumerate(shards):
        (bad_parser, bad_mapper, flags, rejected, gns, bad_pa, bad_info, bad_unord, bad_reval, bad_lang, rejecting,
         has_ws, has_wt, has_amp, doc_cls) = results[si]
        docmap = [(k, j) for k, run in enumerate(sh) for j in range(len(run["p"]["docs"]))]
        for k in bad_parser:
            ck.failure("corr-dtd-parser", "Model/Dtd.v parse_dtd disagrees with DtdParser.parse",
                       replay_of(sh[k], xs_dtd=sh[k]["res"]["xs_dtd"]))
        for k in bad_mapper:
            ck.failure("corr-dtd-mapper", "Model/Dtd.v map_dtd disagrees with DtdMapper.map",
                       replay_of(sh[k], mapped=sh[k]["res"]["mapped"]))
        for k, run in enumerate(sh):
            d = run["p"]["d"]
            for ci, (el, fl) in enumerate(zip(d["elements"], flags[k])):
                stats["classes"] += 1
                distinct.add((run["p"]["dtd"], el["name"], run["compound"]))
                if fl[F_CHECK]:
                    stats["classes_check_true"] += 1
                if gns[k] and not fl[F_MODEL]:
                    ck.failure("theorem-instance-dtd-capacity", f"the mapper model loses capacity for {el['name']} (contradicts C16_dtd_capacity)",
                               replay_of(run, element=el["name"]))
                if not fl[F_ATTRS]:
                    ck.failure(KNOWN["ns"] if not gns[k] else (KNOWN["amp"] if fl[F_AMP] else "attribute-binding-mismatch"), f"attribute fields of {el['name']} do not re-materialise the declared defaults",
                               replay_of(run, element=el["name"], attrs=el["attrs"]))
                if not fl[F_WF]:
                    raise RuntimeError("C16 generator produced an ill-formed content model")
                if not fl[F_CHECK]:
                    w = rejected[k][ci]
                    text = False
                    if w is None and el["kind"] == "ANY":
                        w, text = [[ord(c) for c in clark(d, d["elements"][-1]["name"])]], True
                    if w is not None:
                        witness_jobs.append((run, ci, el, fl, gns[k], ["".join(chr(c) for c in q) for q in w], text))
                    elif fl[F_MODEL] and fl[F_DUPCH] and not (run["compound"] and not fl[F_ORSEQ]):
                        ck.failure("capacity-lost-after-mapper", f"validator rejects the metadata of {el['name']} although the mapper kept capacity; no witness word",
                                   replay_of(run, element=el["name"]))
        bad_pa, bad_info, bad_unord, bad_reval, bad_lang, has_ws, has_wt, has_amp = map(
            set, (bad_pa, bad_info, bad_unord, bad_reval, bad_lang, has_ws, has_wt, has_amp))
        for di, (k, j) in enumerate(docmap):
            run = sh[k]
            doc, dr = run["p"]["docs"][j], run["res"]["docs"][j]
            if di in bad_lang:
                ck.failure("corr-cm-language", "Spec/Cm.v's language rejects a document lxml's DTD validator accepts",
                           replay_of(run, doc=doc))
            if "err" in dr:
                stats["docs_parse_failed"] += 1
                if di in bad_pa:
                    ck.failure("valid-document-rejected-unexplained",
                               f"valid document fails with {dr['err']}: {dr['msg']} but the metadata abstract accepts it",
                               replay_of(run, doc=doc, impl=dr))
                    continue
                for ci, code in rejecting[di]:
                    fl = flags[k][ci] if ci < len(flags[k]) else None
                    cls = classify(fl, gns[k], code, run["compound"]) if fl else None
                    el = run["p"]["d"]["elements"][ci]["name"] if fl else "?"
                    what = f"valid document not parsed ({dr['err']}: {dr['msg'][:80]}) at element {el} [code {code}]"
                    ck.failure(cls or "valid-document-rejected", what, replay_of(run, doc=doc, impl=dr, element=el))
            else:
                stats["docs_ok"] += 1
                if di in bad_pa:
                    # the abstract says a child has no slot (or a required one stays empty) yet nothing was raised:
                    # consistent only if the output lost something (bind_var returns False -> "Unassigned parsed object")
                    if di in bad_unord and rejecting[di]:
                        for ci, code in rejecting[di]:
                            fl = flags[k][ci] if ci < len(flags[k]) else None
                            cls = classify(fl, gns[k], code, run["compound"]) if fl else None
                            el = run["p"]["d"]["elements"][ci]["name"] if fl else "?"
                            ck.failure(cls or "valid-document-children-dropped",
                                       f"valid document parsed without error but children of {el} were silently dropped [code {code}]",
                                       replay_of(run, doc=doc, out=dr["ok"], element=el))
                        continue
                    ck.failure("corr-parse-abstract", "the real parser keeps everything of a document the slot-assignment abstract rejects",
                               replay_of(run, doc=doc, rejecting=rejecting[di]))
                    continue
                if di in bad_unord:
                    cls = KNOWN["ns"] if not gns[k] else (
                        KNOWN["tail"] if di in has_wt else (KNOWN["ws"] if di in has_ws else (
                            KNOWN["amp"] if di in has_amp else "infoset-mismatch")))
                    ck.failure(cls, "output does not have the same elements, attributes and values as the input (defaults applied)",
                               replay_of(run, doc=doc, out=dr["ok"]))
                elif di in bad_info:
                    cls_o = order_class(run, flags[k], doc_cls[di])
                    ck.failure(KNOWN["ns"] if not gns[k] else (cls_o or "order-not-preserved"), "element order changed although the side condition for order holds",
                               replay_of(run, doc=doc, out=dr["ok"]))
                if di in bad_reval:
                    cls_o = order_class(run, flags[k], doc_cls[di])
                    ck.failure(KNOWN["ns"] if not gns[k] else (cls_o or "output-not-dtd-valid"), "serialized output is not DTD-valid although order is claimed for all its elements",
                               replay_of(run, doc=doc, out=dr["ok"]))

    # ---------------- witnesses of failed validator runs, replayed through the real parser
    if witness_jobs:
        wp, wmeta = [], []
        for run, ci, el, fl, g, word, text in witness_jobs:
            d = run["p"]["d"]
            wdoc = witness_doc(d, r, el["name"], word, text)
            ok, err = G.validate(run["p"]["dtd"], wdoc)
            if not ok:
                ck.notes.append(f"witness for {el['name']} not DTD-valid ({err[:80]}); skipped")
                continue
            wp.append({"dtd": run["p"]["dtd"], "root": el["name"], "compound": run["compound"], "docs": [wdoc],
                       "ns_map": ns_map_of(d)})
            wmeta.append((run, ci, el, fl, g, wdoc, 3 if text else 1))
        wres = run_impl("impl_c16.py", {"programs": wp}, timeout=3000, with_shims=True) if wp else []
        ck.cov["evaluations"] += len(wp)
        for (run, ci, el, fl, g, wdoc, code), rs in zip(wmeta, wres):
            dr = rs["docs"][0] if rs["docs"] else {"err": "gen", "msg": ""}
            if "err" in dr:
                stats["witness_confirmed"] += 1
                cls = classify(fl, g, code, run["compound"])
                ck.failure(cls or "validator-rejects-metadata",
                           f"validator: metadata of {el['name']} cannot hold a valid document ({dr['err']}: {dr['msg'][:80]})",
                           replay_of(run, doc=wdoc, impl=dr, element=el["name"]))
            else:
                # accepted: either the validator is conservative here, or the parser dropped children silently
                try:
                    n_in = sum(1 for _ in parse_doc(wdoc).iter("*"))
                    n_out = sum(1 for _ in parse_doc(dr["ok"]).iter("*"))
                except etree.XMLSyntaxError:
                    n_in, n_out = 0, -1
                if n_out != n_in:
                    stats["witness_confirmed"] += 1
                    cls = classify(fl, g, code, run["compound"])
                    ck.failure(cls or "validator-rejects-metadata",
                               f"validator: a valid document for {el['name']} is parsed without error but comes back with {n_out} of {n_in} elements",
                               replay_of(run, doc=wdoc, out=dr["ok"], element=el["name"]))
                else:
                    stats["witness_unconfirmed"] += 1

    ck.cov["distinct_nontrivial"] = len(distinct)
    ck.cov["rule"] = ("one case = (DTD, element class, compound setting) whose metadata went through `check`; evaluations = documents "
                      "parsed+serialized by the real code (each also judged in Coq: slot abstract, infoset, language, re-validation)")
    ck.cov["input_distribution"] = {"programs": len(programs), "documents_per_program": NDOC, "flavours": {
        (f or "plain"): sum(1 for p in programs if p["d"]["flavour"] == (f or "plain")) for f in set(flavours)},
        "regenerated": regen, "element_kinds": kinds_of(programs)}
    stats["validator_false_classes"] = len(witness_jobs)
    ck.cov["programs"] = len(good)
    ck.cov["disagreements_checked"] = stats["docs_parse_failed"] + stats["witness_confirmed"] + stats["witness_unconfirmed"]
    ck.cov.update(stats)
    ck.cov["coq_shard_seconds"] = shard_times
    ck.cov["samples"] = [{"dtd": p["dtd"], "doc": p["docs"][min(2, len(p["docs"]) - 1)]} for p in programs[:3]]
    return ck.finish(obligations=obligations, discharged=discharged,
                     checker_cmd="make -C coq Properties/C16.vo && coqc -Q coq XV coq/Properties/C16.v (Print Assumptions); "
                                 "per program: coqc coq/Corr/c16_s*.v (vm_compute of check / class_flags / doc_* predicates)",
                     trusted_base=TRUSTED_COMMON + [
                         "lxml/libxml2: DTD parsing (shared with xsdata's DtdParser) and DTD validation of generated documents",
                         "stand-in renderer in harness/impl_c16.py (class.jinja2/enum.jinja2/module.jinja2 are not executed; Jinja, ruff absent)",
                         "shims for click/toposort/jinja2/requests",
                         "harness/cm_export.py (metadata and document exporters)",
                         "axioms: " + (", ".join(axioms) or "none (closed under the global context)")],
                     assumptions=["the serializer emits fields in index order, list items together (checked per document, not proved here)",
                                  "ClassContainer.process and Filters are validated per program, not modelled"])


def ns_map_of(d):
    """Prefix bindings the DTD prescribes, handed to the serializer so that its output can be DTD-valid."""
    m = [[k, v] for k, v in d["prefixes"].items()]
    if d["default_ns"]:
        m.append([None, d["default_ns"]])
    return m


def kinds_of(programs):
    out = {}
    for p in programs:
        for e in p["d"]["elements"]:
            out[e["kind"]] = out.get(e["kind"], 0) + 1
    return out
